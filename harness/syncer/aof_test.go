package syncer

import (
	"context"
	"fmt"
	"strings"
	"testing"
	"testing/synctest"
	"time"

	"github.com/mgtv-tech/redis-GunYu/config"
	"github.com/mgtv-tech/redis-GunYu/verifshim/mc"
	"github.com/mgtv-tech/redis-GunYu/verifshim/redisd"
	"github.com/mgtv-tech/redis-GunYu/verifshim/vnet"
	"github.com/mgtv-tech/redis-GunYu/verifshim/vtime"
)

// ---------------------------------------------------------------------------
// H-aof: the real RedisOutput.Send (parser goroutine, sender loop, pipeline
// receiver, RedisConn, proto reader/writer, batcher) against the redisd double.

const (
	probeKey    = "probe:key"
	aofTarget   = "target:6379"
	aofRunID    = "aaaaaaaaaaaaaaaaaaaaaaaaaaaaaaaaaaaaaaaa"
	durBatch    = 1001 * time.Millisecond
	durKeep     = 3001 * time.Millisecond
	durCp       = 7001 * time.Millisecond
)

type aofCfg struct {
	Txn      bool   `json:"txn"`      // CanTransaction (checkpoint inside MULTI/EXEC)
	Resume   bool   `json:"resume"`   // EnableResumeFromBreakPoint
	Pipeline bool   `json:"pipeline"` // pipelined sending
	Count    uint   `json:"count"`    // BatchCmdCount
	Bytes    uint64 `json:"bytes"`    // BatchBufferSize
	DbMode   string `json:"dbmode"`   // "id" | "map12" | "all0" | "shift" | "swap" | "onto5" | "merge" | "all3"
	Probe    bool   `json:"probe,omitempty"` // input.syncDelayTestKey configured: the stream may carry the tool's own delay probe
}

func (c aofCfg) String() string {
	return fmt.Sprintf("txn=%v,resume=%v,pipe=%v,count=%d,bytes=%d,db=%s", c.Txn, c.Resume, c.Pipeline, c.Count, c.Bytes, c.DbMode)
}

func (c aofCfg) class() string {
	s := "ticker"
	if c.Txn {
		s = "txn"
	}
	if !c.Resume {
		s = "nocp"
	}
	if c.Pipeline {
		s += "+pipe"
	}
	return s
}

func (c aofCfg) model(startDB int) modelCfg {
	m := modelCfg{TargetDb: -1, StartDB: startDB}
	switch c.DbMode {
	case "map12":
		m.DbMap = map[int]int{1: 2}
	case "all0":
		m.TargetDb = 0
	case "shift":
		// a target db number that is also a source db number mapped elsewhere
		m.DbMap = map[int]int{0: 1, 1: 2}
	case "swap":
		m.DbMap = map[int]int{0: 1, 1: 0}
	case "onto5":
		// an allowed source database mapped onto the NUMBER of the black-listed source database
		m.DbMap = map[int]int{1: blackDB}
	case "merge":
		// many-to-one: two allowed source databases share one target database
		m.DbMap = map[int]int{1: 0, 2: 0}
	case "all3":
		// every source database goes into one target database other than the connection's initial one
		m.TargetDb = 3
	}
	return m
}

func (c aofCfg) outputConfig(cpName string) RedisOutputConfig {
	m := c.model(-1)
	rc := config.RedisConfig{Addresses: []string{aofTarget}, Type: config.RedisTypeStandalone, Otype: config.RedisTypeStandalone, Version: "7.2.0"}
	return RedisOutputConfig{
		InputName:                  "src",
		CheckpointName:             cpName,
		RunId:                      aofRunID,
		CanTransaction:             c.Txn,
		Redis:                      rc,
		EnableResumeFromBreakPoint: c.Resume,
		KeyExists:                  "replace",
		TargetDb:                   m.TargetDb,
		TargetDbMap:                m.DbMap,
		BatchCmdCount:              c.Count,
		BatchTicker:                durBatch,
		BatchBufferSize:            c.Bytes,
		KeepaliveTicker:            durKeep,
		ReplayRdbParallel:          1,
		ReplayRdbEnableRestore:     true,
		ReplayPipeline:             c.Pipeline,
		UpdateCheckpointTicker:     durCp,
		SyncDelayTestKey:           map[bool]string{true: probeKey, false: ""}[c.Probe],
		Stats:                      config.OutputStats{DisableLog: true},
		Filter: config.FilterConfig{
			DbBlacklist:  []int{blackDB},
			CmdBlacklist: []string{blackCmd},
			KeyFilter:    &config.FilterKeyConfig{PrefixKeyBlacklist: []string{fltPrefix}},
		},
	}
}

// aofEnv is the closed environment of one execution (lives inside one bubble).
type aofEnv struct {
	t      *testing.T
	srv    *redisd.Server
	events int
	runID  string // replication id the source stream is read under ("" = aofRunID)
}

func newAofEnv(t *testing.T) *aofEnv {
	vnet.Reset()
	vtime.Reset()
	vtime.Register(durBatch, "batch")
	vtime.Register(durKeep, "keepalive")
	vtime.Register(durCp, "cp")
	return &aofEnv{t: t, srv: redisd.New(aofTarget)}
}

// aofS0 is the stream start offset of the execution under way. Scenarios of the H-aof checks
// choose it with their Base field ("" = 1000, "0" = 0, "big" = 2^32+7); every other harness
// leaves it at 1000.
var aofS0 = int64(1000)

func setBase(b string) {
	switch b {
	case "0":
		aofS0 = 0
	case "big":
		aofS0 = 1<<32 + 7
	default:
		aofS0 = 1000
	}
}

// curPre, when set, turns the quiescence waits of this harness into preemption-aware ones.
var curPre *preemptCtl

func aofWait() {
	if curPre != nil {
		curPre.settle()
		return
	}
	synctest.Wait()
}

// aofRun is one running RedisOutput.Send.
type aofRun struct {
	env    *aofEnv
	ro     *RedisOutput
	g      *gate
	cancel context.CancelFunc
	done   chan error
	ended  bool
	err    error
	items  []sItem
	pos    int // next item to release
	split  bool // every item arrives in two reads (cut in the middle), the replay quiescent in between
}

func (e *aofEnv) start(ro *RedisOutput, items []sItem, startOff int64) *aofRun {
	g := newGate()
	ctx, cancel := context.WithCancel(context.Background())
	r := &aofRun{env: e, ro: ro, g: g, cancel: cancel, done: make(chan error, 1), items: items}
	rid := e.runID
	if rid == "" {
		rid = aofRunID
	}
	rd := newHReader(g, rid, startOff, -1, true)
	go func() { r.done <- ro.Send(ctx, rd) }()
	aofWait()
	r.poll()
	return r
}

func (r *aofRun) poll() {
	if r.ended {
		return
	}
	select {
	case err := <-r.done:
		r.ended, r.err = true, err
	default:
	}
}

func (r *aofRun) release(n int) {
	for k := 0; k < n && r.pos < len(r.items); k++ {
		raw := r.items[r.pos].Raw
		if r.split && len(raw) > 1 {
			r.g.Release(raw[:len(raw)/2])
			aofWait()
			raw = raw[len(raw)/2:]
		}
		r.g.Release(raw)
		r.pos++
	}
	r.env.events++
	aofWait()
	r.poll()
}

func (r *aofRun) tick(name string) bool {
	ok := vtime.Fire(name)
	r.env.events++
	aofWait()
	r.poll()
	return ok
}

// stop ends the run the way a process exit would look to its goroutines: context
// cancelled, source stream closed; then waits for Send to return.
func (r *aofRun) stop() {
	r.cancel()
	r.g.Close(nil)
	aofWait()
	r.poll()
	if !r.ended {
		// give retry sleeps (virtual time) a chance to elapse
		time.Sleep(30 * time.Second)
		aofWait()
		r.poll()
	}
}

// tickNames returns the tickers that exist in this configuration.
func tickNames(c aofCfg) []string {
	if c.Txn && c.Resume {
		// (transactional mode with resuming on creates its checkpoint ticker with a period of a hundred
		// years: there is nothing to fire. With resuming off the event is offered: on a tree that has no
		// such ticker it is a no-op)
		return []string{"batch", "keepalive"}
	}
	return []string{"batch", "keepalive", "cp"}
}

// drive feeds the stream under explorer control: before every item (and after the
// last one) the explorer may fire up to maxTicks tickers; it may also release two
// items at once. Every departure from "release the next item" costs one deviation.
func (r *aofRun) drive(ch *mc.Chooser, c aofCfg, maxTicks int, upto int) {
	ticks := tickNames(c)
	for r.pos < upto && !r.ended && !r.env.srv.Crashed() {
		fired := 0
		for fired < maxTicks {
			n := 1 + len(ticks)
			a := ch.Choose(fmt.Sprintf("pre%d.%d", r.pos, fired), n)
			if a == 0 {
				break
			}
			r.tick(ticks[a-1])
			fired++
			if r.ended || r.env.srv.Crashed() {
				return
			}
		}
		two := 0
		if r.pos+1 < upto {
			two = ch.Choose(fmt.Sprintf("two%d", r.pos), 2)
		}
		r.release(1 + two)
	}
	if r.ended || r.env.srv.Crashed() {
		return
	}
	fired := 0
	for fired < maxTicks {
		a := ch.Choose(fmt.Sprintf("post.%d", fired), 1+len(ticks))
		if a == 0 {
			break
		}
		r.tick(ticks[a-1])
		fired++
		if r.ended || r.env.srv.Crashed() {
			return
		}
	}
}

func symsString(s []string) string { return strings.Join(s, " ") }

package syncer

import (
	"context"
	"fmt"
	"github.com/mgtv-tech/redis-GunYu/config"
	"strings"
	"testing"
	"time"

	"github.com/mgtv-tech/redis-GunYu/verifshim/clusterd"
	"github.com/mgtv-tech/redis-GunYu/verifshim/mc"
	"github.com/mgtv-tech/redis-GunYu/verifshim/redisd"
	"github.com/mgtv-tech/redis-GunYu/verifshim/ref"
	"github.com/mgtv-tech/redis-GunYu/verifshim/vtime"
)

// ---------------------------------------------------------------------------
// C14, cluster variant: parallel mode with two lanes into a 3-node cluster double. The
// units' transactions are PARKED at the nodes; the explorer decides which lane's
// transaction the cluster executes first (completion order across lanes), whether the
// next unit is dispatched before earlier ones completed, when the frontier is flushed,
// and where the crash falls (cluster-wide, after any number of processed requests).

// two keys whose slots fall on different lanes (slot parity) and different nodes
var c14cKeys = c14cKeysSpread

// c14cKeysColo: two keys on different lanes (slot parity) whose slots both belong to node 0 (scenario
// field Colo): in pipeline mode their transactions share one node pipeline
var c14cKeysColo = func() [2]string {
	var out [2]string
	found := 0
	for i := 0; found < 2 && i < 100000; i++ {
		k := fmt.Sprintf("k{%d}", i)
		s := ref.HashSlotS(k)
		if clusterd.EvenLayout(3)(s) != 0 {
			continue
		}
		if found == 0 && s%2 == 0 {
			out[0] = k
			found++
		} else if found == 1 && s%2 == 1 {
			out[1] = k
			found++
		}
	}
	return out
}()

var c14cKeysSpread = func() [2]string {
	var out [2]string
	found := 0
	for i := 0; found < 2 && i < 100000; i++ {
		k := fmt.Sprintf("k{%d}", i)
		s := ref.HashSlotS(k)
		node := clusterd.EvenLayout(3)(s)
		if found == 0 && s%2 == 0 && node == 0 {
			out[0] = k
			found++
		} else if found == 1 && s%2 == 1 && node == 2 {
			out[1] = k
			found++
		}
	}
	return out
}()

type clusterCrashCtl struct {
	cl    *clusterd.Cluster
	ch    *mc.Chooser
	left  int
	marks *[]string
}

func (x *clusterCrashCtl) event(tag string, do func()) bool {
	seq0 := x.cl.Processed()
	defer func() {
		x.cl.EnforceCrash()
		if x.marks != nil {
			*x.marks = append(*x.marks, fmt.Sprintf("%s->%d", tag, x.cl.Processed()))
		}
	}()
	if x.left <= 0 {
		do()
		return false
	}
	j, n := x.ch.Peek(tag)
	if j > 0 {
		x.cl.SetCrashAfter(seq0 + int64(j) - 1)
		do()
		x.ch.ChooseCost(tag, make([]int, n))
		if !x.cl.Crashed() {
			panic(fmt.Sprintf("crash point %s=%d/%d not reached (burst shorter than recorded)", tag, j, n))
		}
		x.left--
		return true
	}
	do()
	b := int(x.cl.Processed() - seq0)
	x.ch.ChooseCost(tag, make([]int, b+1))
	return false
}

func c14cIsData(argv [][]byte) bool {
	switch strings.ToLower(string(argv[0])) {
	case "cluster", "ping", "info", "command", "auth", "select":
		return false
	}
	return !redisd.NonData(string(argv[0]))
}

// c14cStream: unit i writes key[Lane[i]] with a unique value.
var c14cFoo bool // set by c14cExec for the execution under way

func c14cStream(lanes []int) []sItem {
	var items []sItem
	var off int64
	add := func(c ...string) {
		raw := redisd.EncodeCommandS(c...)
		off += int64(len(raw))
		it := sItem{Raw: raw, End: off, Sym: len(items)}
		for _, a := range c {
			it.Argv = append(it.Argv, []byte(a))
		}
		items = append(items, it)
	}
	for i, l := range lanes {
		if c14cFoo {
			add("FOO.SET", c14cKeys[l], fmt.Sprintf("v%d", i))
		} else {
			add("SET", c14cKeys[l], fmt.Sprintf("v%d", i))
		}
	}
	return items
}

type c14cScenario struct {
	Lanes      []int `json:"lanes"`
	Cfg        biCfg `json:"cfg"`
	MaxCrashes int   `json:"max_crashes"`
	Idle       int   `json:"idle_restarts"`
	Cluster    bool  `json:"cluster"`
	Soft       bool  `json:"soft"` // explore one in-process restart (same RedisOutput object) after a lost-connection stop
	// Pre: an earlier life of the same namespace (not judged): these units were replayed from a
	// low offset, then the source answered with a full resync under the same run id (snapshot
	// ending where the judged stream starts) and the tool stopped before replaying anything.
	Pre []int `json:"pre,omitempty"`
	// PreSameLife: the earlier units belong to the SAME life: they were replayed from the offset of
	// the first full sync up to where the judged stream starts, the frontier was stored, the tool
	// stopped cleanly. No resync in between: the first judged start finds a stored frontier.
	PreSameLife bool `json:"pre_same_life,omitempty"`
	// AutoFlush: whenever a processed request leaves nothing in flight the coordinator's flush timer
	// fires (the frontier is stored as soon as it can be), at no cost in deviations
	AutoFlush bool `json:"auto_flush,omitempty"`
	// Topo: slot-migration steps for the slot of lane 0's key (node 0 -> node 1), applied when the
	// explorer says so: "M" migrating/importing, "K" the key is moved, "F" finished, "O" abrupt owner
	// flip. With a topology script a run may end with a REPORTED error (the tool restarts); that is
	// not a violation (C19), a silent stop still is.
	Topo []string `json:"topo,omitempty"`
	// Foo: the units are FOO.SET commands (not in the static key table: keys through COMMAND GETKEYS)
	// and the output has a slot white list that contains only the slot of lane 0's key. A command
	// the key table does not know is not slot-filtered, so lane 1's units are replayed as well.
	Foo bool `json:"foo,omitempty"`
	// Colo: the keys of both lanes live on node 0 (different slots). In pipeline mode (one cluster client
	// for all units) their transactions travel over one node pipeline, so what happens to the transaction in
	// front is seen by the one queued behind it; in parallel mode each lane has a cluster client of its own
	Colo bool `json:"colo,omitempty"`
	// Burst: the stream items still to come arrive in ONE read (the explorer's 'item' action delivers all
	// of them): several units are dispatched before any reply is read, so in pipeline mode several
	// transactions are written to one node connection and are in flight together
	Burst bool `json:"burst,omitempty"`
	// Rekey > 0 (family 'failover'): from start number Rekey on the source reports a new replication id
	// with the previous one as its second id; every start runs (*syncer).updateCheckpoint,
	// StartPoint(ids), SetRunId(ids[0]) (see c14Scenario.Rekey)
	Rekey int `json:"rekey,omitempty"`
	// TopoPre: the first TopoPre steps of Topo have taken place between the tool's start (its cluster client
	// has read the slot map) and the first stream item: the client's slot map is STALE from the first unit on.
	// They are applied at no cost in deviations; the remaining steps are placed by the explorer. A step
	// may carry a lane suffix ("O1", "M1", "K1", "F1"): it then concerns the slot of lane 1's key (its
	// owner -> node 1) instead of lane 0's, so two slots of two different nodes can have moved
	TopoPre int `json:"topo_pre,omitempty"`
}

// c14cTopoLane splits a topology step into its operation and the lane whose slot it concerns
func c14cTopoLane(st string) (op string, lane int) {
	if len(st) == 2 && st[1] >= '0' && st[1] <= '1' {
		return st[:1], int(st[1] - '0')
	}
	return st, 0
}

// c14cMigratingLanes: the lanes whose slot the script touches
func c14cMigratingLanes(topo []string) map[int]bool {
	out := map[int]bool{}
	for _, st := range topo {
		_, l := c14cTopoLane(st)
		out[l] = true
	}
	return out
}

func c14cExec(t *testing.T, scn c14cScenario, ch *mc.Chooser) (rec c14Rec, machinery string) {
	c14cKeys = c14cKeysSpread
	if scn.Colo {
		c14cKeys = c14cKeysColo
	}
	msg := bubble(t, func() {
		biEnvReset()
		cl := clusterd.New(clusterAddrs, clusterd.EvenLayout(3))
		rc := clusterCfg()
		c14cFoo = scn.Foo
		if scn.Foo {
			sl := ref.HashSlotS(c14cKeys[0])
			biBootCfgHookAll = func(c *RedisOutputConfig) {
				c.Filter = config.FilterConfig{SlotFilter: &config.FilterSlotConfig{KeySlotWhitelist: config.DoubleSliceUint16{{uint16(sl)}}}}
			}
			defer func() { biBootCfgHookAll = nil }()
		}
		items := c14cStream(scn.Lanes)
		rec.Items = items
		ctl := &clusterCrashCtl{cl: cl, ch: ch, left: scn.MaxCrashes, marks: &rec.Marks}
		setPark := func(on bool) {
			for _, n := range cl.Nodes {
				p := n.PlanRef()
				p.Park = on
				p.ParkFilter = c14cIsData
			}
		}
		nodeOf := func(key string) *redisd.Server { return cl.Nodes[cl.Owner(ref.HashSlotS(key))] }
		type parked struct{ node, conn int }
		listParked := func() []parked {
			var out []parked
			for ni, n := range cl.Nodes {
				for _, c := range n.ParkedConns() {
					out = append(out, parked{ni, c})
				}
			}
			return out
		}
		idleLeft := scn.Idle
		streamDone := false
		events := 0
		topo := 0
		reported := 0
		preClock := int64(0)
		if len(scn.Pre) > 0 {
			p0 := int64(100)
			if scn.PreSameLife {
				n := 0
				for i, l := range scn.Pre {
					n += len(redisd.EncodeCommandS("SET", c14cKeys[l], fmt.Sprintf("p%d", i)))
				}
				p0 = aofS0 - int64(n)
			}
			setPark(false)
			b := biBootWith(scn.Cfg, rc, "src", aofRunID, p0, true, nodeOf)
			if b.err != nil {
				machinery = "pre-history: start failed: " + b.err.Error()
				return
			}
			r := biStart(b.ro, aofRunID, b.offset)
			for i, l := range scn.Pre {
				r.feed(redisd.EncodeCommandS("SET", c14cKeys[l], fmt.Sprintf("p%d", i)))
			}
			time.Sleep(150 * time.Millisecond)
			vtime.Fire("frontier")
			r.wait()
			r.kill()
			if !scn.PreSameLife {
				biForceFull = true
				b2 := biBootWith(scn.Cfg, rc, "src", aofRunID, aofS0, true, nodeOf)
				biForceFull = false
				if b2.err != nil {
					machinery = "pre-history: full resync failed: " + b2.err.Error()
					return
				}
			}
			preClock = cl.Clock()
		}
		for runNo := 0; runNo < scn.MaxCrashes+scn.Idle+2+3*len(scn.Topo); runNo++ {
			rr := c14Run{FirstSeq: int(cl.Clock()) + 1, Idle: streamDone}
			if runNo > 0 {
				cl.Revive()
			}
			setPark(false)
			var boot biBootResult
			// the start sequence scans all 16384 slots (tens of thousands of requests): crash points
			// inside it are enumerated by the standalone variant, not here
			crashed := false
			ids := c14IDs(scn.Rekey, runNo)
			if scn.Rekey > 0 {
				boot = biBootIDs(scn.Cfg, rc, "src", ids, aofS0, nodeOf, nil)
			} else {
				boot = biBootWith(scn.Cfg, rc, "src", aofRunID, aofS0, true, nodeOf)
			}
			rr.BootEnd = int(cl.Clock())
			if crashed || boot.err != nil {
				rr.Crashed = crashed
				if boot.err != nil {
					rr.BootErr = boot.err.Error()
				}
				rec.Runs = append(rec.Runs, rr)
				if !crashed {
					v := mc.Violation("start-up failed on a healthy target", "C14:boot-error:cluster-"+scn.Cfg.Mode, map[string]interface{}{"error": rr.BootErr, "run": runNo})
					rec.Early = &v
					break
				}
				continue
			}
			rr.Offset, rr.SpOffset, rr.FullSync = boot.offset, boot.sp.Offset, boot.fullSync
			startIdx := boundaryIndex(items, boot.offset)
			if startIdx < 0 {
				rec.Runs = append(rec.Runs, rr)
				v := mc.Violation("resume offset is not the end of a replay unit / stream item", "C14:resume-not-boundary:cluster-"+scn.Cfg.Mode, map[string]interface{}{"offset": boot.offset, "run": runNo})
				rec.Early = &v
				break
			}
			setPark(true)
			run := biStart(boot.ro, ids[0], boot.offset)
			pos := startIdx
			softLeft := 0
			// inProcessRestart: what RedisInput.Run does after a non-fatal error - the same
			// output object is asked for its start point again and Send is called again
			inProcessRestart := func() bool {
				setPark(false)
				sp, err := boot.ro.StartPoint(context.Background(), ids)
				if err == nil {
					err = boot.ro.SetRunId(context.Background(), ids[0])
				}
				setPark(true)
				nr := c14Run{FirstSeq: int(cl.Clock()), BootEnd: int(cl.Clock()), Offset: sp.Offset, SpOffset: sp.Offset}
				if err != nil {
					nr.BootErr = err.Error()
					rec.Runs = append(rec.Runs, rr)
					rr = nr
					v := mc.Violation("in-process restart failed on a healthy target", "C14:boot-error:cluster-"+scn.Cfg.Mode, map[string]interface{}{"error": nr.BootErr})
					rec.Early = &v
					return false
				}
				if sp.IsInitial() || sp.Offset < aofS0 {
					nr.Offset = aofS0
				}
				idx := boundaryIndex(items, nr.Offset)
				rec.Runs = append(rec.Runs, rr)
				rr = nr
				if idx < 0 {
					v := mc.Violation("resume offset is not the end of a replay unit / stream item", "C14:resume-not-boundary:cluster-"+scn.Cfg.Mode, map[string]interface{}{"offset": nr.Offset})
					rec.Early = &v
					return false
				}
				pos = idx
				run = biStart(boot.ro, ids[0], nr.Offset)
				return true
			}
			if scn.Soft && runNo == 0 {
				// warm-up: an in-process restart with no traffic (caches "no frontier yet")
				run.kill()
				if !inProcessRestart() {
					break
				}
				softLeft = 1
			}
			step := 0
			doEvent := func(f func()) bool {
				step++
				events++
				return ctl.event(fmt.Sprintf("crash.r%d.e%d", runNo, step), f)
			}
			crashed = false
			flushed := false
			applyTopo := func(st string) {
				op, lane := c14cTopoLane(st)
				slot := ref.HashSlotS(c14cKeys[lane])
				switch op {
				case "M":
					cl.SetMigrating(slot, 1)
				case "K":
					cl.MoveKey(slot, c14cKeys[lane])
				case "F":
					cl.Finish(slot)
				case "O":
					cl.SetOwner(slot, 1)
				}
			}
			for guard := 0; guard < 200 && !crashed && !run.ended; guard++ {
				if topo < scn.TopoPre && topo < len(scn.Topo) {
					// the cluster changed after the client read its slot map and before the first item
					run.wait()
					applyTopo(scn.Topo[topo])
					topo++
					continue
				}
				pk := listParked()
				type act struct {
					kind string
					p    parked
				}
				var menu []act
				for _, p := range pk {
					menu = append(menu, act{"req", p})
				}
				if pos < len(items) {
					menu = append(menu, act{kind: "item"})
				}
				if len(menu) == 0 {
					if flushed {
						break
					}
					flushed = true
					// everything dispatched and executed: let the coordinator persist the frontier
					crashed = doEvent(func() { time.Sleep(150 * time.Millisecond); vtime.Fire("frontier"); run.wait() })
					continue
				}
				flushed = false
				menu = append(menu, act{kind: "flush"})
				if topo < len(scn.Topo) {
					menu = append(menu, act{kind: "topo"})
				}
				if softLeft > 0 {
					menu = append(menu, act{kind: "softstop"})
				}
				costs := make([]int, len(menu))
				for i := range costs {
					if i > 0 {
						costs[i] = 1
					}
				}
				a := menu[ch.ChooseCost(fmt.Sprintf("r%d.s%d", runNo, guard), costs)]
				switch a.kind {
				case "req":
					p := a.p
					crashed = doEvent(func() { cl.Nodes[p.node].Step(p.conn, 0); run.wait() })
					if scn.AutoFlush && !crashed && !run.ended && len(listParked()) == 0 {
						crashed = doEvent(func() { time.Sleep(150 * time.Millisecond); vtime.Fire("frontier"); run.wait() })
					}
				case "item":
					it := items[pos]
					pos++
					raw := append([]byte(nil), it.Raw...)
					for scn.Burst && pos < len(items) {
						raw = append(raw, items[pos].Raw...)
						pos++
					}
					crashed = doEvent(func() { run.feed(raw) })
				case "topo":
					st := scn.Topo[topo]
					topo++
					applyTopo(st)
					run.wait()
				case "flush":
					crashed = doEvent(func() { time.Sleep(150 * time.Millisecond); vtime.Fire("frontier"); run.wait() })
				case "softstop":
					// the connections are lost together with what was in flight; the link stops with
					// an error and is restarted in-process
					softLeft--
					for _, n := range cl.Nodes {
						n.DropParked()
						n.KillConns()
					}
					run.wait()
					run.kill()
					if !inProcessRestart() {
						guard = 1000
					}
				}
			}
			early := run.ended
			setPark(false)
			for _, n := range cl.Nodes {
				n.Unpark()
			}
			run.kill()
			rr.Crashed = crashed
			if run.err != nil {
				rr.SendErr = run.err.Error()
			}
			rr.Completed = !crashed && !early && pos == len(items)
			rec.Runs = append(rec.Runs, rr)
			if early && !crashed && len(scn.Topo) > 0 && run.err != nil {
				// a reported stop during a topology change: the tool restarts
				reported++
				if reported <= 3 {
					continue
				}
			}
			if early && !crashed {
				v := mc.Violation("replay stopped although the target is healthy", "C14:send-returned:cluster-"+scn.Cfg.Mode, map[string]interface{}{"error": rr.SendErr, "run": runNo})
				rec.Early = &v
				break
			}
			if rr.Completed {
				streamDone = true
				if idleLeft == 0 {
					break
				}
				idleLeft--
			}
		}
		// one merged log in global order; sequence numbers become the cluster stamps
		for _, r := range cl.GlobalLog() {
			if r.Stamp <= preClock {
				continue
			}
			r.Seq = int(r.Stamp)
			r.ExecSeq = int(r.ExecStamp)
			if r.Txn != 0 {
				r.Txn = r.Node*1000000 + r.Txn
			}
			if r.Executed {
				rec.Exec = append(rec.Exec, r)
			}
		}
		sortByExecSeq(rec.Exec)
		rec.Events = events
		for _, n := range cl.Nodes {
			if len(n.MachineryErrors) > 0 {
				machinery = "double: " + strings.Join(n.MachineryErrors, "; ")
			}
		}
	})
	if msg != "" {
		machinery = "bubble: " + msg
	}
	return
}

func sortByExecSeq(l []*redisd.Req) {
	for i := 1; i < len(l); i++ {
		for j := i; j > 0 && l[j].ExecSeq < l[j-1].ExecSeq; j-- {
			l[j], l[j-1] = l[j-1], l[j]
		}
	}
}

// oracleC19Bi judges a bidirectional replay into the cluster while a slot migrates by C19's
// clauses only: per key the executed writes never skip or invert (a restart may repeat a
// suffix), every business command runs inside a transaction together with its marker, nothing
// is lost once a run has consumed the whole stream, a stop is reported, and within one run no
// unit is committed twice.
func oracleC19Bi(scn c14cScenario, rec *c14Rec) mc.Result {
	mode := "bisync-" + scn.Cfg.Mode
	describe := func() map[string]interface{} {
		return map[string]interface{}{"runs": rec.Runs, "target_log": maskedLog(rec.Exec), "topology": scn.Topo}
	}
	if rec.Early != nil {
		r := *rec.Early
		r.Sig = strings.Replace(r.Sig, "C14:", "C19:bisync:", 1)
		r.Detail = map[string]interface{}{"detail": r.Detail, "history": describe()}
		return r
	}
	// source writes per key, in order
	src := map[string][]string{}
	for i, l := range scn.Lanes {
		k := c14cKeys[l]
		src[k] = append(src[k], fmt.Sprintf("v%d", i))
	}
	last := map[string]int{}
	// a history in which the client's slot map was stale from the first unit on (TopoPre) has its own signature
	staleSfx := ""
	if scn.TopoPre > 0 {
		staleSfx = ":stale-map"
	}
	migrKeys := map[string]bool{}
	for l := range c14cMigratingLanes(scn.Topo) {
		migrKeys[c14cKeys[l]] = true
	}
	type seen struct{ run, n int }
	perRun := map[string]map[int]int{}
	runOf := func(seq int) int {
		r := 0
		for i, rr := range rec.Runs {
			if seq >= rr.FirstSeq {
				r = i
			}
		}
		return r
	}
	for _, r := range rec.Exec {
		if r.Name() != "set" || len(r.Argv) != 3 || isBisyncKey(r.Argv[1]) {
			continue
		}
		k, v := string(r.Argv[1]), string(r.Argv[2])
		p := -1
		for i, sv := range src[k] {
			if sv == v {
				p = i + 1
			}
		}
		if p < 0 {
			return mc.Violation("the cluster executed a write that is not in the source stream", "C19:bisync:invented:"+mode, map[string]interface{}{"command": r.String(), "history": describe()})
		}
		if r.Txn == 0 {
			return mc.Violation("a unit's command was executed outside a MULTI/EXEC", "C19:bisync:not-atomic:"+mode, map[string]interface{}{"command": r.String(), "history": describe()})
		}
		if p > last[k]+1 {
			return mc.Violation("per-key order broken: a write took effect before an earlier write of the same key", "C19:bisync:key-order:"+mode+staleSfx, map[string]interface{}{"key": k, "value": v, "history": describe()})
		}
		last[k] = p
		ru := runOf(r.Seq)
		if perRun[k+"="+v] == nil {
			perRun[k+"="+v] = map[int]int{}
		}
		perRun[k+"="+v][ru]++
		if perRun[k+"="+v][ru] > 1 {
			// every bidirectional unit is a transaction: C19's "in transactional mode no command is executed
			// twice within one run" holds in every mode. The shape says WHICH unit was repeated: one of the
			// slot that migrates (its own redirect was followed twice) or one of a slot whose owner never
			// changed (it only travelled behind a redirected transaction)
			sig := "C19:bisync:repeat-in-run:" + mode
			if len(scn.Topo) > 0 && !migrKeys[k] {
				sig += ":behind-redirect"
			}
			return mc.Violation("a unit was committed twice within one run", sig, map[string]interface{}{"write": k + "=" + v, "run": ru, "history": describe()})
		}
	}
	fin := rec.Runs[len(rec.Runs)-1]
	if fin.Completed {
		for k, vs := range src {
			if last[k] != len(vs) {
				return mc.Violation("a write was lost: the stream was consumed, yet the key's last executed write is not the source's last", "C19:bisync:lost:"+mode, map[string]interface{}{"key": k, "history": describe()})
			}
		}
	}
	parts := maskedLog(rec.Exec)
	return mc.OK(mc.Hash(parts...), len(rec.Exec) > 0, rec.Events)
}

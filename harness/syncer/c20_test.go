package syncer

// C20 - pre-existing target keys are handled as the configured policy says, on any
// path. H-rdb (rdb_test.go) with a pre-populated target: snapshot x prior content per
// key x policy {replace, ignore, error} x path {RESTORE, expanded, chunked} x {plain,
// bidirectional}.

import (
	"encoding/json"
	"fmt"
	"os"
	"path/filepath"
	"strings"
	"testing"
	"time"

	"github.com/mgtv-tech/redis-GunYu/config"
	"github.com/mgtv-tech/redis-GunYu/verifshim/mc"
	"github.com/mgtv-tech/redis-GunYu/verifshim/redisd"
	"github.com/mgtv-tech/redis-GunYu/verifshim/ref"
)

func init() { verifChecks["C20"] = runC20 }

// c20Pre is the prior content of one snapshot key on the target.
type c20Pre struct {
	Key  string `json:"key"`
	Kind string `json:"kind"` // "same" (same type, other content, one overlapping element) | "other" (another type)
	TTL  bool   `json:"ttl"`  // the old key has an expiry of its own
}

type c20Scenario struct {
	rdbScenario
	Path string   `json:"path"` // restore | expanded | bulk (expansion forced by MaxProtoBulkLen) | chunked
	Pre  []c20Pre `json:"pre"`
	// configuration family: the policy is written as text (Spell) into a configuration file, loaded by the
	// tool's own loader (Via "yaml" = config.InitSyncerConfig, "rdbcmd" = config.InitRdbConfig) and handed to
	// the output the way syncer.newOutput / cmd/rdb.go do; Cfg.Policy is not used then
	Via   string `json:"via,omitempty"`
	Spell string `json:"spell,omitempty"`
	// reply texts: "busy28" = a 2.8 target answers a RESTORE on an existing key with "ERR Target key name is
	// busy." instead of BUSYKEY (same meaning, judged by the normal oracle); any other value is an error text
	// that does NOT mean "key exists" and is sent once in place of the reply to the subject's RESTORE: the
	// replay has to fail whatever the policy, with the pre-existing key untouched
	Inject string `json:"inject,omitempty"`
	// family "sequences of pre-existing keys on one worker" (c20s_test.go): how the value of each key of the
	// snapshot travels (acc | ref | bulk | chunk), in key order
	Seq []string `json:"seq,omitempty"`
}

// c20Intended lists the policies a spelling may legitimately stand for. config.go lower-cases the value and
// replaces anything that is not replace / ignore / error by replace, so case variants mean the policy they
// spell and the empty or an unknown value means replace; a value with a surrounding blank is, as the code
// stands, an unknown value (replace), but reading it as the trimmed policy is accepted as well. reject says
// whether refusing the whole configuration would be an acceptable answer to this spelling.
func c20Intended(spell string) (policies []string, reject bool) {
	known := func(s string) bool { return s == "replace" || s == "ignore" || s == "error" }
	low := strings.ToLower(spell)
	if known(low) {
		return []string{low}, false
	}
	if spell == "" {
		return []string{"replace"}, false
	}
	if t := strings.TrimSpace(low); known(t) {
		if t == "replace" {
			return []string{"replace"}, true
		}
		return []string{"replace", t}, true
	}
	return []string{"replace"}, true
}

// c20LoadPolicy writes the configuration text, runs the tool's loader and returns the value the tool would
// put into RedisOutputConfig.KeyExists.
func c20LoadPolicy(via, spell string) (string, error) {
	dir := os.Getenv("VERIF_SCRATCH")
	if dir == "" {
		dir = os.TempDir()
	}
	path := filepath.Join(dir, "c20.yaml")
	quoted := fmt.Sprintf("%q", spell)
	var text string
	switch via {
	case "yaml":
		text = "input:\n  redis:\n    addresses: [127.0.0.1:16300]\n    type: standalone\n" +
			"channel:\n  storer:\n    dirPath: /nonexistent/verif\n" +
			"output:\n  redis:\n    addresses: [127.0.0.1:6707]\n    type: standalone\n" +
			"  replay:\n    resumeFromBreakPoint: false\n    keyExists: " + quoted + "\n"
	case "rdbcmd":
		text = "action: load\nrdbPath: /nonexistent/verif.rdb\nload:\n  redis:\n    addresses: [127.0.0.1:6707]\n    type: standalone\n" +
			"  replay:\n    keyExists: " + quoted + "\n"
	default:
		return "", fmt.Errorf("unknown configuration path %q", via)
	}
	if err := os.WriteFile(path, []byte(text), 0o600); err != nil {
		return "", err
	}
	switch via {
	case "yaml":
		*config.GetSyncerConfig() = config.SyncConfig{} // a fresh process has a zero configuration
		defer func() { *config.GetSyncerConfig() = config.SyncConfig{} }()
		if err := config.InitSyncerConfig(path); err != nil {
			return "", c20Rejected{err}
		}
		return config.GetSyncerConfig().Output.Replay.KeyExists, nil // syncer.newOutput: KeyExists: cfg.Replay.KeyExists
	default:
		*config.GetRdbCmdConfig() = config.RdbCmdConfig{}
		defer func() { *config.GetRdbCmdConfig() = config.RdbCmdConfig{} }()
		if err := config.InitRdbConfig(path); err != nil {
			return "", c20Rejected{err}
		}
		return config.GetRdbCmdConfig().Load.Replay.KeyExists, nil // cmd/rdb.go: KeyExists: cfg.Replay.KeyExists
	}
}

type c20Rejected struct{ err error }

func (r c20Rejected) Error() string { return "configuration rejected: " + r.err.Error() }

const c20Bystander = "bystander" // a target key the snapshot does not mention

// c20Old builds the prior value for a snapshot key of logical type t.
func c20Old(t byte, kind string) *redisd.Value {
	if kind == "other" {
		if t == 's' {
			return &redisd.Value{T: 'l', List: [][]byte{[]byte("other-type")}}
		}
		return &redisd.Value{T: 's', Str: []byte("OTHER-TYPE")}
	}
	switch t {
	case 's':
		return &redisd.Value{T: 's', Str: []byte("OLD-STRING")}
	case 'l':
		return &redisd.Value{T: 'l', List: [][]byte{[]byte("old1"), []byte("old2")}}
	case 'S':
		return &redisd.Value{T: 'S', Set: map[string]struct{}{"old": {}, "a": {}}}
	case 'z':
		return &redisd.Value{T: 'z', ZSet: map[string]float64{"old": 99, "a": 42}}
	case 'h':
		return &redisd.Value{T: 'h', Hash: map[string][]byte{"oldf": []byte("oldv"), "f1": []byte("OLD"), "field-0-kkkk": []byte("OLD")}, HOrder: []string{"oldf", "f1", "field-0-kkkk"}}
	case 'x':
		return &redisd.Value{T: 'x', Stream: &redisd.Stream{Entries: []redisd.StreamEntry{{ID: redisd.StreamID{Ms: 0, Seq: 1}, Fields: [][]byte{[]byte("o"), []byte("1")}}},
			LastID: redisd.StreamID{Ms: 0, Seq: 1}, Added: 1, Groups: []*redisd.Group{{Name: "oldg", LastID: redisd.StreamID{Ms: 0, Seq: 1}, EntriesRd: -1}}}}
	}
	return nil
}

func c20State(v *redisd.Value) string {
	if v == nil {
		return "<absent>"
	}
	return fmt.Sprintf("expire_at=%d %s", v.ExpireAt, strings.Join(rdbCanon(v), " | "))
}

// c20Writes lists the executed, successful requests that write key in db.
func c20Writes(log []*redisd.Req, db int, key string) []string {
	var out []string
	for _, r := range log {
		if !r.Executed || r.Failed || r.ExecDB != db || len(r.Argv) < 2 {
			continue
		}
		name := r.Name()
		switch name {
		case "exists", "type", "get", "ttl", "pttl", "select", "ping", "multi", "exec", "info", "hget", "hgetall", "dbsize", "keys", "scan":
			continue
		}
		k := string(r.Argv[1])
		if name == "xgroup" && len(r.Argv) > 2 {
			k = string(r.Argv[2])
		}
		if k == key {
			out = append(out, r.String())
		}
	}
	return out
}

func c20Exec(t *testing.T, scn c20Scenario, ch *mc.Chooser) mc.Result {
	var res mc.Result
	var candidates []string
	if scn.Via != "" {
		var mayReject bool
		candidates, mayReject = c20Intended(scn.Spell)
		got, err := c20LoadPolicy(scn.Via, scn.Spell)
		if err != nil {
			if _, rejected := err.(c20Rejected); rejected {
				if mayReject {
					r := mc.OK(mc.Hash("rejected", scn.Via, scn.Spell), true, 0)
					r.Detail = "config-rejected"
					return r
				}
				return mc.Violation("the loader refuses a configuration whose keyExists value is a valid policy", "C20:config:rejected", map[string]interface{}{"spelling": scn.Spell, "error": err.Error()})
			}
			return mc.Result{Verdict: "machinery", Clause: "configuration family: " + err.Error()}
		}
		scn.Cfg.PolicyVerbatim = &got
	}
	msg := bubble(t, func() {
		time.Sleep(1234567 * time.Microsecond)
		now := time.Now().UnixMilli()
		built, err := rdbBuild(scn.rdbScenario, now)
		if err != nil {
			res = mc.Result{Verdict: "machinery", Clause: "generator: " + err.Error()}
			return
		}
		if len(scn.Seq) > 0 {
			if err := c20SeqCheck(scn, built); err != nil {
				res = mc.Result{Verdict: "machinery", Clause: "sequence family: " + err.Error()}
				return
			}
		}
		olds := map[string]*redisd.Value{} // snapshot key -> prior value
		bystander := &redisd.Value{T: 'h', Hash: map[string][]byte{"untouched": []byte("yes")}, HOrder: []string{"untouched"}, ExpireAt: now + 77777}
		hooks := &rdbHooks{Prepare: func(srv *redisd.Server) {
			srv.Put(0, c20Bystander, bystander)
			for _, p := range scn.Pre {
				e := built.ByKey[p.Key]
				if e == nil {
					continue
				}
				old := c20Old(e.Case.Val.Type, p.Kind)
				if p.TTL {
					old.ExpireAt = now + 50021
				}
				olds[p.Key] = old
				srv.Put(e.TargetDB, e.TargetKey, old)
			}
		}}
		injected := false
		if scn.Inject != "" {
			hooks.BeforeReq = func(srv *redisd.Server, idx int, argv [][]byte) {
				e := built.ByKey["subj"]
				if e == nil || len(argv) < 2 || !strings.EqualFold(string(argv[0]), "restore") || string(argv[1]) != e.TargetKey {
					return
				}
				hasReplace := false
				for _, a := range argv[4:] {
					if strings.EqualFold(string(a), "REPLACE") {
						hasReplace = true
					}
				}
				text := ""
				if scn.Inject == "busy28" {
					if !hasReplace && srv.Get(e.TargetDB, e.TargetKey) != nil {
						text = "ERR Target key name is busy."
					}
				} else if !injected {
					injected, text = true, scn.Inject
				}
				if text != "" {
					pl := srv.PlanRef()
					if pl.FailAt == nil {
						pl.FailAt = map[int]string{}
					}
					pl.FailAt[srv.NumReqs()+1] = text
				}
			}
		}
		out := rdbRun(scn.rdbScenario, built, ch, hooks)
		if scn.Inject != "" && scn.Inject != "busy28" && injected {
			// (when the policy's own existence probe skipped or refused the key no RESTORE was sent for
			// it, nothing was injected and the normal oracle applies)
			res = c20FaultOracle(scn, built, out, olds, bystander)
		} else if scn.Via == "" {
			res = c20Oracle(scn, built, out, olds, bystander)
		} else {
			// the execution has to satisfy the oracle of one of the policies the spelling may stand for
			for i, pol := range candidates {
				s2 := scn
				s2.Cfg.Policy = pol
				r := c20Oracle(s2, built, out, olds, bystander)
				if i == 0 || r.Verdict != "violation" {
					res = r
				}
				if r.Verdict != "violation" {
					break
				}
			}
			if res.Verdict == "violation" {
				parts := strings.Split(res.Sig, ":")
				mode := "plain"
				if scn.Cfg.Bisync {
					mode = "bisync"
				}
				res.Sig = "C20:config-spelling:" + mode
				res.Clause = fmt.Sprintf("keyExists written as %q (loaded as %q) does not behave like %v: %s", scn.Spell, *scn.Cfg.PolicyVerbatim, candidates, res.Clause)
				_ = parts
			}
		}
		out.Srv.KillConns()
	})
	if msg != "" {
		return mc.Result{Verdict: "machinery", Clause: "bubble: " + msg}
	}
	return res
}

// c20FaultOracle: the target answered the subject's RESTORE with an error that does not mean "key exists".
func c20FaultOracle(scn c20Scenario, built *rdbBuilt, out *rdbOutcome, olds map[string]*redisd.Value, bystander *redisd.Value) mc.Result {
	srv := out.Srv
	execLog := srv.ExecLog()
	logStr := rdbReqStrings(execLog)
	mode := "plain"
	if scn.Cfg.Bisync {
		mode = "bisync"
	}
	detail := map[string]interface{}{"target_log": rdbTail(logStr, 30), "send_error": fmt.Sprint(out.Err), "policy": scn.Cfg.policy(), "injected": scn.Inject}
	if !out.Ended {
		return mc.Violation("replay did not finish", "C20:target-error:"+mode+":hang", detail)
	}
	if out.Err == nil {
		return mc.Violation("the target refused the RESTORE with an error that does not mean 'key exists', yet the replay reports success", "C20:target-error:"+mode+":swallowed", detail)
	}
	if rdbCpWritten(execLog) {
		return mc.Violation("the replay failed but the snapshot offset was recorded", "C20:target-error:"+mode+":checkpoint", detail)
	}
	e := built.ByKey["subj"]
	if old, ok := olds["subj"]; ok && e != nil {
		if got := srv.Get(e.TargetDB, e.TargetKey); c20State(got) != c20State(old) {
			detail["before"], detail["after"] = c20State(old), c20State(got)
			return mc.Violation("the pre-existing key was changed although its RESTORE was refused", "C20:target-error:"+mode+":modified", detail)
		}
	}
	if got := srv.Get(0, c20Bystander); c20State(got) != c20State(bystander) {
		return mc.Violation("a target key the snapshot does not contain was touched", "C20:target-error:"+mode+":bystander", detail)
	}
	return mc.OK(mc.Hash(logStr...), true, out.Events)
}

// c20Oracle judges one execution; signatures of the embedded full-sync oracle are cut
// down to "<prefix>:<clause>" (which container a value had is C03's business).
func c20Oracle(scn c20Scenario, built *rdbBuilt, out *rdbOutcome, olds map[string]*redisd.Value, bystander *redisd.Value) mc.Result {
	r := c20Judge(scn, built, out, olds, bystander)
	if r.Verdict == "violation" {
		parts := strings.Split(r.Sig, ":")
		if len(parts) > 5 {
			r.Sig = strings.Join(parts[:5], ":")
		}
		if strings.Contains(r.Sig, "hashtag-not-applied") && len(parts) > 3 {
			r.Sig = "C20:hashtag-not-applied:" + parts[3] // one defect whatever the policy and path
		}
	}
	return r
}

func c20Judge(scn c20Scenario, built *rdbBuilt, out *rdbOutcome, olds map[string]*redisd.Value, bystander *redisd.Value) mc.Result {
	srv := out.Srv
	policy := scn.Cfg.policy()
	mode := "plain"
	if scn.Cfg.Bisync {
		mode = "bisync"
	}
	path := scn.Path
	if path == "bulk" {
		path = "expanded" // same replay path, other reason
	}
	prefix := fmt.Sprintf("C20:%s:%s:%s", policy, path, mode)
	execLog := srv.ExecLog()
	logStr := rdbReqStrings(execLog)
	detail := func(extra map[string]interface{}) map[string]interface{} {
		m := map[string]interface{}{"target_log": rdbTail(logStr, 40), "send_error": fmt.Sprint(out.Err), "policy": policy}
		for k, v := range extra {
			m[k] = v
		}
		return m
	}
	built.Allow = map[string]bool{"0/" + c20Bystander: true}
	if got := srv.Get(0, c20Bystander); c20State(got) != c20State(bystander) || len(c20Writes(execLog, 0, c20Bystander)) > 0 {
		return mc.Violation("a target key the snapshot does not contain was touched", prefix+":bystander", detail(map[string]interface{}{"found": c20State(got)}))
	}
	// which pre-existing keys does the replay meet at all
	var met []*rdbExpect
	for _, e := range built.Expect {
		if _, ok := olds[e.Spec.Key]; ok && !e.Filtered {
			met = append(met, e)
		}
	}
	if policy == "replace" || len(met) == 0 {
		// the target must end with exactly the snapshot: the C03 oracle, old values included
		return rdbOracle(prefix, scn.rdbScenario, built, out)
	}
	if !out.Ended {
		return mc.Violation("replay did not finish", prefix+":hang", detail(nil))
	}
	unchanged := func(e *rdbExpect) *mc.Result {
		old := olds[e.Spec.Key]
		got := srv.Get(e.TargetDB, e.TargetKey)
		if c20State(got) != c20State(old) {
			class := "modified"
			if policy == "ignore" {
				class = "not-skipped"
			}
			r := mc.Violation("a pre-existing key was changed although the policy is "+policy, prefix+":"+class,
				detail(map[string]interface{}{"key": e.Spec.Key, "before": c20State(old), "after": c20State(got), "snapshot_value": rdbClipLines(rdbCanon(e.Value))}))
			return &r
		}
		if w := c20Writes(execLog, e.TargetDB, e.TargetKey); len(w) > 0 {
			r := mc.Violation("the target executed a write on a pre-existing key although the policy is "+policy, prefix+":"+map[bool]string{true: "not-skipped", false: "write-request"}[policy == "ignore"],
				detail(map[string]interface{}{"key": e.Spec.Key, "writes": w}))
			return &r
		}
		return nil
	}
	switch policy {
	case "ignore":
		if out.Err != nil && scn.Cfg.Bisync && scn.Cfg.TargetVer != "" && strings.Contains(out.Err.Error(), "Bad data format") {
			// bidirectional replay has no native-command fallback: a snapshot key the policy does NOT skip
			// (absent on the target) whose encoding the older target refuses ends the replay with a reported
			// error (see rdbOracle). Accepted when nothing is recorded as complete and every pre-existing
			// key is still untouched.
			refused := false
			for _, q := range execLog {
				if q.Name() == "restore" && strings.Contains(q.Reply, "Bad data format") {
					refused = true
				}
			}
			if refused {
				if rdbCpWritten(execLog) {
					return mc.Violation("the replay failed (target does not know the encoding) but the snapshot offset was recorded as resume position", prefix+":refusal-recorded-complete", detail(nil))
				}
				for _, e := range met {
					if r := unchanged(e); r != nil {
						return *r
					}
				}
				r := mc.OK(mc.Hash(append(logStr, "refused")...), true, out.Events)
				r.Detail = rdbRefusedOlderTarget
				return r
			}
		}
		if out.Err != nil {
			return mc.Violation("Send failed on a key the ignore policy tells it to skip", prefix+":not-skipped", detail(nil))
		}
		for _, e := range met {
			if r := unchanged(e); r != nil {
				return *r
			}
		}
		// every other key: as in a plain full sync
		rest := &rdbBuilt{File: built.File, ByKey: built.ByKey, ByTarget: built.ByTarget, Allow: built.Allow, TypeAt: built.TypeAt}
		for _, e := range built.Expect {
			if _, ok := olds[e.Spec.Key]; ok && !e.Filtered {
				rest.Allow[fmt.Sprintf("%d/%s", e.TargetDB, e.TargetKey)] = true
				continue
			}
			rest.Expect = append(rest.Expect, e)
		}
		if len(rest.Expect) == 0 {
			return mc.OK(mc.Hash(logStr...), true, out.Events)
		}
		return rdbOracle(prefix, scn.rdbScenario, rest, out)
	case "error":
		if out.Err == nil {
			return mc.Violation("Send returned nil although a snapshot key exists on the target and the policy is error", prefix+":no-error", detail(nil))
		}
		for _, e := range met {
			if r := unchanged(e); r != nil {
				return *r
			}
		}
		return mc.OK(mc.Hash(logStr...), true, out.Events)
	}
	return mc.Result{Verdict: "machinery", Clause: "unknown policy " + policy}
}

type c20Subject struct {
	Case    string
	Enc     ref.RDBEnc
	Version int
}

func c20Subjects(thorough bool) []c20Subject {
	out := []c20Subject{
		{"string/short", ref.RDBEnc{Kind: "raw"}, 9},
		{"string/run60", ref.RDBEnc{Kind: "lzf"}, 11},
		{"list/small", ref.RDBEnc{Kind: "quicklist2", Node: 2}, 10},
		{"list/listpack-ints", ref.RDBEnc{Kind: "quicklist"}, 8},
		{"set/small", ref.RDBEnc{Kind: "table"}, 9},
		{"set/int16", ref.RDBEnc{Kind: "intset16"}, 11},
		{"zset/small", ref.RDBEnc{Kind: "listpack"}, 11},
		{"zset/inf", ref.RDBEnc{Kind: "skiplist2"}, 8},
		{"hash/small", ref.RDBEnc{Kind: "listpack"}, 10},
		{"hash/sizes", ref.RDBEnc{Kind: "table"}, 9},
		{"stream/samefields", ref.RDBEnc{Kind: "v3"}, 11},
		{"stream/groups", ref.RDBEnc{Kind: "v2"}, 10},
	}
	if thorough {
		out = append(out,
			c20Subject{"string/int:300", ref.RDBEnc{Kind: "int"}, 6},
			c20Subject{"list/sizes", ref.RDBEnc{Kind: "ziplist"}, 6},
			c20Subject{"set/mixed", ref.RDBEnc{Kind: "listpack"}, 12},
			c20Subject{"zset/precision", ref.RDBEnc{Kind: "ziplist"}, 9},
			c20Subject{"hash/ziplist-ints", ref.RDBEnc{Kind: "ziplist"}, 8},
			c20Subject{"stream/deleted", ref.RDBEnc{Kind: "v1"}, 9},
			c20Subject{"stream/otherfields-then-same", ref.RDBEnc{Kind: "v4"}, 13},
		)
	}
	return out
}

func c20Enumerate(tier string, f func(c20Scenario)) {
	thorough := tier == "thorough"
	type prior struct {
		kind string
		ttl  bool
	}
	priors := []prior{{"", false}, {"same", false}, {"same", true}, {"other", false}, {"other", true}}
	pars := []int{1}
	if thorough {
		pars = []int{1, 2}
	}
	// subjKey "" = "subj" without ReplaceHashTag; a name with braces switches ReplaceHashTag on: the prior
	// value then sits under the rewritten name, and the reduced product (both keys in one order, subject
	// prior {absent, same, other+ttl}, expiry {none, past}, companion absent) is enumerated
	var emitKey func(sub c20Subject, path string, chunkAt int, subjKey string)
	emit := func(sub c20Subject, path string, chunkAt int) { emitKey(sub, path, chunkAt, "") }
	emitKey = func(sub c20Subject, path string, chunkAt int, subjKey string) {
		hashTag := subjKey != ""
		if !hashTag {
			subjKey = "subj"
		}
		var cfgBase rdbCfg
		switch path {
		case "restore":
			cfgBase = rdbCfg{Restore: true, BulkLen: c03BigBulk}
		case "expanded":
			cfgBase = rdbCfg{Restore: false, BulkLen: c03BigBulk}
		case "bulk":
			cfgBase = rdbCfg{Restore: true, BulkLen: 12}
		case "chunked":
			cfgBase = rdbCfg{Restore: true, BulkLen: c03BigBulk}
		}
		for _, policy := range []string{"replace", "ignore", "error"} {
			for _, bi := range []bool{false, true} {
				for _, par := range pars {
					// expiry of the snapshot's subject key: none, in the future, already past when the
					// replay runs (replace: the old value must not survive - the key is gone at once;
					// ignore: the old key stays as it is; error: the replay still has to fail)
					// "now": the snapshot key expires at the very millisecond the replay runs - like "past"
					for _, x := range []string{"", "future", "past", "now"} {
						for pi, sp := range priors {
							for _, compOld := range []bool{false, true} {
								for _, subjFirst := range []bool{true, false} {
									if !subjFirst && !(thorough || policy == "error") {
										continue // key order only matters where the replay stops at a key
									}
									if x == "now" && !thorough && (compOld || pi == 2 || pi == 3) {
										continue // the boundary class with a reduced set of prior states in the quick tier
									}
									if hashTag && (compOld || !subjFirst || x == "future" || x == "now" || pi == 2 || pi == 3) {
										continue
									}
									cfg := cfgBase
									cfg.Policy, cfg.Bisync, cfg.Parallel, cfg.DbMode, cfg.Resume = policy, bi, par, "id", true
									cfg.HashTag = hashTag
									subj := rdbKeySpec{DB: 0, Key: subjKey, Case: sub.Case, Enc: sub.Enc, Exp: x, Idle: -1, Freq: -1}
									comp := rdbKeySpec{DB: 0, Key: "comp", Case: "string/short", Enc: ref.RDBEnc{Kind: "raw"}, Exp: "", Idle: -1, Freq: -1}
									keys := []rdbKeySpec{subj, comp}
									if !subjFirst {
										keys = []rdbKeySpec{comp, subj}
									}
									s := c20Scenario{rdbScenario: rdbScenario{Keys: keys, Version: sub.Version, Aux: true, Cfg: cfg, ChunkAt: chunkAt}, Path: path}
									if sp.kind != "" {
										s.Pre = append(s.Pre, c20Pre{Key: subjKey, Kind: sp.kind, TTL: sp.ttl})
									}
									if compOld {
										s.Pre = append(s.Pre, c20Pre{Key: "comp", Kind: "same"})
									}
									f(s)
								}
							}
						}
					}
				}
			}
		}
	}
	for _, sub := range c20Subjects(thorough) {
		for _, path := range []string{"restore", "expanded", "bulk"} {
			emit(sub, path, 0)
		}
	}
	// ReplaceHashTag: key names with a tag, a tag at the end, a lone brace
	for _, key := range []string{"{t}subj", "user{tag}", "order{42"} {
		for _, sub := range []c20Subject{{"string/short", ref.RDBEnc{Kind: "raw"}, 9}, {"hash/small", ref.RDBEnc{Kind: "listpack"}, 10}, {"list/small", ref.RDBEnc{Kind: "quicklist2", Node: 2}, 10}} {
			for _, path := range []string{"restore", "expanded"} {
				emitKey(sub, path, 0, key)
			}
		}
		emitKey(c20Subject{"chunk/h/4", ref.RDBEnc{Kind: "table"}, 9}, "chunked", 64, key)
	}
	// older-target family: prior content x policy x a target that does not know the value's encoding. A 6.2
	// target answers RESTORE of a Redis 7 listpack / quicklist2 / stream-v3 value with BUSYKEY while the key
	// exists and REPLACE is not given, with "Bad data format" otherwise (rdbRun models that order); the plain
	// replay then falls back to native commands and has to apply the same policy; a 7.2 target takes the
	// payload. Bidirectional replay has no fallback: a reported refusal without checkpoint is accepted there.
	for _, tv := range []string{"6.2.0", "7.2.0"} {
		for _, sub := range []c20Subject{
			{"hash/small", ref.RDBEnc{Kind: "listpack"}, 10},
			{"zset/small", ref.RDBEnc{Kind: "listpack"}, 11},
			{"list/small", ref.RDBEnc{Kind: "quicklist2", Node: 2}, 10},
			{"set/small", ref.RDBEnc{Kind: "listpack"}, 11},
			{"stream/samefields", ref.RDBEnc{Kind: "v3"}, 11},
		} {
			for _, policy := range []string{"replace", "ignore", "error"} {
				for _, bi := range []bool{false, true} {
					for _, restore := range []bool{true, false} {
						for _, x := range []string{"", "future"} {
							for _, sp := range priors {
								if !thorough && (bi || !restore) && (x == "future" || sp.ttl) {
									continue // the full prior x expiry product for the plain RESTORE path, a reduced one elsewhere
								}
								path := "restore"
								if !restore {
									path = "expanded"
								}
								cfg := rdbCfg{Restore: restore, BulkLen: c03BigBulk, Parallel: 1, DbMode: "id", Resume: true, Bisync: bi, Policy: policy, TargetVer: tv}
								subj := rdbKeySpec{DB: 0, Key: "subj", Case: sub.Case, Enc: sub.Enc, Exp: x, Idle: -1, Freq: -1}
								comp := rdbKeySpec{DB: 0, Key: "comp", Case: "string/short", Enc: ref.RDBEnc{Kind: "raw"}, Idle: -1, Freq: -1}
								s := c20Scenario{rdbScenario: rdbScenario{Keys: []rdbKeySpec{subj, comp}, Version: sub.Version, Aux: true, Cfg: cfg}, Path: path}
								if sp.kind != "" {
									s.Pre = []c20Pre{{Key: "subj", Kind: sp.kind, TTL: sp.ttl}}
								}
								f(s)
							}
						}
					}
				}
			}
		}
	}
	// reply-text family: what the target answers to the subject's RESTORE
	for _, inject := range []string{"busy28", "BUSY Redis is busy running a script. You can only call SCRIPT KILL or SHUTDOWN NOSAVE.", "LOADING Redis is loading the dataset in memory", "BUSYGROUP Consumer Group name already exists"} {
		for _, sub := range []c20Subject{{"string/short", ref.RDBEnc{Kind: "raw"}, 9}, {"hash/small", ref.RDBEnc{Kind: "listpack"}, 10}} {
			for _, policy := range []string{"replace", "ignore", "error"} {
				for _, bi := range []bool{false, true} {
					for _, sp := range []prior{{"", false}, {"same", false}, {"other", true}} {
						if inject == "busy28" && sp.kind == "" {
							continue
						}
						cfg := rdbCfg{Restore: true, BulkLen: c03BigBulk, Parallel: 1, DbMode: "id", Resume: true, Bisync: bi, Policy: policy}
						subj := rdbKeySpec{DB: 0, Key: "subj", Case: sub.Case, Enc: sub.Enc, Idle: -1, Freq: -1}
						comp := rdbKeySpec{DB: 0, Key: "comp", Case: "string/short", Enc: ref.RDBEnc{Kind: "raw"}, Idle: -1, Freq: -1}
						s := c20Scenario{rdbScenario: rdbScenario{Keys: []rdbKeySpec{subj, comp}, Version: sub.Version, Aux: true, Cfg: cfg}, Path: "restore", Inject: inject}
						if sp.kind != "" {
							s.Pre = []c20Pre{{Key: "subj", Kind: sp.kind, TTL: sp.ttl}}
						}
						f(s)
					}
				}
			}
		}
	}
	// configuration family: the policy as a user writes it, through the tool's own configuration loader
	var spells []string
	for _, p := range []string{"replace", "ignore", "error"} {
		spells = append(spells, p, strings.ToUpper(p[:1])+p[1:], strings.ToUpper(p), " "+p, p+" ")
	}
	spells = append(spells, "", "bogus")
	for _, via := range []string{"yaml", "rdbcmd"} {
		for _, spell := range spells {
			for _, sp := range []prior{{"same", false}, {"other", true}} {
				for _, bi := range []bool{false, true} {
					if bi && via == "rdbcmd" {
						continue // the rdb command has no bidirectional mode
					}
					type sj struct {
						sub   c20Subject
						path  string
						chunk int
					}
					var sjs []sj
					for _, sub := range []c20Subject{{"string/short", ref.RDBEnc{Kind: "raw"}, 9}, {"hash/small", ref.RDBEnc{Kind: "listpack"}, 10}, {"list/small", ref.RDBEnc{Kind: "quicklist2", Node: 2}, 10}} {
						sjs = append(sjs, sj{sub, "restore", 0}, sj{sub, "expanded", 0})
					}
					sjs = append(sjs, sj{c20Subject{"chunk/h/4", ref.RDBEnc{Kind: "table"}, 9}, "chunked", 64})
					for _, x := range sjs {
						cfg := rdbCfg{Restore: x.path != "expanded", BulkLen: c03BigBulk, Parallel: 1, DbMode: "id", Resume: true, Bisync: bi}
						subj := rdbKeySpec{DB: 0, Key: "subj", Case: x.sub.Case, Enc: x.sub.Enc, Idle: -1, Freq: -1}
						comp := rdbKeySpec{DB: 0, Key: "comp", Case: "string/short", Enc: ref.RDBEnc{Kind: "raw"}, Idle: -1, Freq: -1}
						s := c20Scenario{rdbScenario: rdbScenario{Keys: []rdbKeySpec{subj, comp}, Version: x.sub.Version, Aux: true, Cfg: cfg, ChunkAt: x.chunk}, Path: x.path, Via: via, Spell: spell}
						s.Pre = []c20Pre{{Key: "subj", Kind: sp.kind, TTL: sp.ttl}}
						f(s)
					}
				}
			}
		}
	}
	chunks := []string{"chunk/h/4", "chunk/h/6"}
	ths := []int{64}
	if thorough {
		chunks = []string{"chunk/h/2", "chunk/h/4", "chunk/h/5", "chunk/h/6"}
		ths = []int{64, 32}
	}
	for _, name := range chunks {
		for _, th := range ths {
			emit(c20Subject{name, ref.RDBEnc{Kind: "table"}, 9}, "chunked", th)
		}
	}
	// sequences of pre-existing keys on one worker (c20s_test.go); last, so that the numbering of the
	// scenarios above stays what it was
	c20EnumerateSeq(thorough, f)
}

func runC20(t *testing.T, rep *mc.Reporter) {
	shard, nshards := mc.ShardOf()
	tier := mc.Tier()
	budget := &mc.Budget{Deadline: mc.DeadlineFromEnv()}
	if rp, err := mc.LoadReplay(); err != nil {
		rep.Machinery("cannot load replay: "+err.Error(), nil)
		return
	} else if rp != nil {
		var scn c20Scenario
		if err := json.Unmarshal(rp.Scenario, &scn); err != nil {
			rep.Machinery("bad replay scenario: "+err.Error(), nil)
			return
		}
		rep.Exec(scn, rp.Choices, c20Exec(t, scn, mc.NewChooser(rp.Choices)))
		return
	}
	idx := 0
	c20Enumerate(tier, func(scn c20Scenario) {
		idx++
		if idx%nshards != shard || budget.Expired() {
			return
		}
		mc.RunScenario(rep, scn, 0, budget, func(ch *mc.Chooser) mc.Result {
			r := c20Exec(t, scn, ch)
			if len(scn.Seq) > 0 && r.Verdict == "ok" {
				rep.Count(fmt.Sprintf("key_sequences_of_%d", len(scn.Seq)), 1)
			}
			if r.Verdict == "ok" && r.Detail == rdbRefusedOlderTarget {
				rep.Count("reported_refusal_older_target", 1)
				r.Detail = nil
			}
			if r.Verdict == "ok" && r.Detail == "config-rejected" {
				rep.Count("configurations_rejected_by_the_loader", 1)
				r.Detail = nil
			}
			return r
		})
	})
	if budget.Expired() {
		rep.Capped("deadline reached before all scenarios were explored")
	}
}

package syncer

// C10, families that go through the tool's own construction and parse path:
//
//	real: config.FilterConfig value -> syncer.NewRedisOutput (the real filter construction,
//	      built-in bookkeeping prefixes and no-route commands included) -> a source stream
//	      through the real RedisOutput.parseAofCommand -> which commands come out, with
//	      which arguments, for which database; plus ro.outFilter on snapshot keys.
//	yaml: configuration TEXT -> config.InitSyncerConfig (yaml decoding + every fix()) ->
//	      GetSyncerConfig().Output.Filter -> the same.
//	flag: the flag spellings of the list types (SliceInt / SliceString /
//	      DoubleSliceUint16 .Set) -> the same.
//
// The judge is the same literal evaluator of the statement as in c10_test.go (c10Oracle);
// it is fed the configuration the harness WROTE, never what the tool parsed.

import (
	"bufio"
	"bytes"
	"errors"
	"fmt"
	"io"
	"os"
	"path/filepath"
	"sort"
	"strconv"
	"strings"
	"time"

	"github.com/mgtv-tech/redis-GunYu/config"
	usync "github.com/mgtv-tech/redis-GunYu/pkg/sync"
	"github.com/mgtv-tech/redis-GunYu/verifshim/mc"
	"github.com/mgtv-tech/redis-GunYu/verifshim/ref"
)

// c10Item is one command of the source stream.
type c10Item struct {
	db   int
	cmd  string // as the source spells it
	args [][]byte
	sel  bool  // this item is the SELECT itself
	end  int64 // stream position after its last byte
}

func c10Resp(dst []byte, parts ...[]byte) []byte {
	dst = append(dst, '*')
	dst = strconv.AppendInt(dst, int64(len(parts)), 10)
	dst = append(dst, '\r', '\n')
	for _, p := range parts {
		dst = append(dst, '$')
		dst = strconv.AppendInt(dst, int64(len(p)), 10)
		dst = append(dst, '\r', '\n')
		dst = append(dst, p...)
		dst = append(dst, '\r', '\n')
	}
	return dst
}

// c10StreamCommands: the commands sent in every database of the stream.
func c10StreamCommands(sA, sB uint16) []c10Command {
	keys := []string{"a", "ab", "b", "c", "\xff", "/redis-gunyu/x", "redis-gunyu-checkpoint"}
	var out []c10Command
	add := func(cmd string, args ...string) { out = append(out, c10Command{"stream", cmd, sb(args...)}) }
	for _, k := range keys {
		add("set", k, "v")
		add("HSET", k, "f", "v") // the source may spell a name in upper case
		add("expire", k, "10")
	}
	five := keys[:5]
	for _, x := range five {
		for _, y := range five {
			add("del", x, y)
			add("mset", x, "1", y, "2")
			add("rename", x, y)
		}
	}
	add("Del", "a", "b", "/redis-gunyu/x")
	add("unlink", "b", "a", "c")
	add("unlink", "redis-gunyu-checkpoint")
	add("mset", "b", "1", "a", "2", "ab", "3")
	add("bitop", "and", "a", "ab", "b")
	add("bitop", "not", "a", "ab")
	add("smove", "a", "b", "m")
	add("eval", "s", "0", "b")
	add("eval", "s", "1", "a", "b")
	add("eval", "s", "2", "a", "b")
	add("xreadgroup", "group", "g", "c", "streams", "a", "b", ">", ">")
	add("setex", "a", "1", "v")
	add("setnx", "a", "v")
	add("incr", "a")
	add("publish", "b", "m")
	add("flushall")
	add("script", "flush")
	return out
}

// c10BuildStream lays the commands out in databases 0,1,2 and 0 again (so that the
// database decision has to be taken back after a blacklisted database).
func c10BuildStream(cmds []c10Command) ([]byte, []c10Item) {
	var data []byte
	var items []c10Item
	for _, db := range []int{0, 1, 2, 0} {
		data = c10Resp(data, []byte("SELECT"), []byte(strconv.Itoa(db)))
		items = append(items, c10Item{db: db, cmd: "select", sel: true, end: int64(len(data))})
		for _, c := range cmds {
			parts := append([][]byte{[]byte(c.cmd)}, c.args...)
			data = c10Resp(data, parts...)
			items = append(items, c10Item{db: db, cmd: c.cmd, args: c.args, end: int64(len(data))})
		}
	}
	return data, items
}

// c10FilterConfig turns the harness configuration into the tool's configuration value.
func c10FilterConfig(c *c10Cfg) config.FilterConfig {
	fc := config.FilterConfig{}
	if c.DbBlack != nil {
		fc.DbBlacklist = c.DbBlack
	}
	if c.CmdBlack != nil {
		fc.CmdBlacklist = c.CmdBlack
	}
	if c.KeyFilterSet || len(c.PfxWhite)+len(c.PfxBlack) > 0 {
		fc.KeyFilter = &config.FilterKeyConfig{PrefixKeyWhitelist: bs2s(c.PfxWhite), PrefixKeyBlacklist: bs2s(c.PfxBlack)}
	}
	if c.SlotFilterSet || len(c.SlotWhite)+len(c.SlotBlack) > 0 {
		fc.SlotFilter = &config.FilterSlotConfig{KeySlotWhitelist: c.SlotWhite, KeySlotBlacklist: c.SlotBlack}
	}
	return fc
}

func c10OutputConfig(fc config.FilterConfig, rc config.RedisConfig, targetDb int, dbMap map[int]int) RedisOutputConfig {
	return RedisOutputConfig{
		InputName:              "src",
		CheckpointName:         config.CheckpointKey,
		RunId:                  "aaaaaaaaaaaaaaaaaaaaaaaaaaaaaaaaaaaaaaaa",
		Redis:                  rc,
		KeyExists:              "replace",
		TargetDb:               targetDb,
		TargetDbMap:            dbMap,
		ReplayRdbParallel:      1,
		ReplayRdbEnableRestore: true,
		Stats:                  config.OutputStats{DisableLog: true},
		Filter:                 fc,
	}
}

// c10Parse runs the real parser over the stream and returns what it hands to the sender.
func c10Parse(ro *RedisOutput, data []byte, n int, start int64) ([]cmdExecution, error) {
	sendBuf := make(chan cmdExecution, n+8) // never blocks: the call below is synchronous
	wc := usync.NewWaitCloser(func(error) {})
	err := ro.parseAofCommand(wc, bufio.NewReaderSize(bytes.NewReader(data), 4096), start, sendBuf)
	wc.Close(nil)
	close(sendBuf)
	var out []cmdExecution
	for c := range sendBuf {
		out = append(out, c)
	}
	return out, err
}

// c10Judge compares one real output (construction + parse path + snapshot verdicts)
// with the statement. layer names the part of the tool the finding is attributed to
// when the pure filter (mirror construction) gets the same input right.
func c10Judge(rep *mc.Reporter, scn c10Scn, ro *RedisOutput, layer string, data []byte, items []c10Item, snapKeys []string) {
	cfg := &scn.Cfg
	o := c10Statement(cfg)
	mirror := newC10Env(cfg) // the pure filter built from the configuration as written
	real := &c10Env{cfg: cfg, f: ro.outFilter, o: o}
	const start = int64(1000)
	var bits []byte
	evals := 0
	var fail *mc.Result
	violate := func(clause, sig string, detail map[string]interface{}) {
		if fail == nil {
			r := mc.Violation(clause, sig, detail)
			fail = &r
		}
	}
	// which primitive of the real filter disagrees with the statement on this input?
	attribute := func(db int, cmd string, keys [][]byte) string {
		what := "parse-path"
		switch {
		case real.f.FilterDb(db) == o.dbOK(db):
			what = "db"
		case cmd != "" && real.f.FilterCmd(strings.ToLower(cmd)) == o.cmdOK(cmd):
			what = "cmd-blacklist"
		default:
			for _, k := range keys {
				if real.f.FilterKey(string(k)) == o.prefixOK(k) {
					what = "prefix"
					break
				}
				if real.f.FilterSlot(string(k)) == o.slotOK(k) {
					what = "slot"
					break
				}
			}
		}
		return what
	}
	sigFor := func(db int, cmd string, args [][]byte, keyIdx []int, mirrorAgrees bool) string {
		var keys [][]byte
		for _, k := range keyIdx {
			keys = append(keys, args[k])
		}
		if mirrorAgrees {
			what := attribute(db, cmd, keys)
			if what == "parse-path" && cfg.mapped() {
				what = "db-mapping" // the filter object is right: the parser asked it about another database, or attached another one
			}
			return "C10:" + layer + ":" + what
		}
		for _, k := range keys {
			if s := mirror.causeOfKey(k); s != "" {
				return s
			}
		}
		return "C10:" + layer + ":filter-primitives"
	}

	outs, err := c10Parse(ro, data, len(items), start)
	if !errors.Is(err, io.EOF) {
		rep.Exec(scn, nil, mc.Result{Verdict: "machinery", Clause: fmt.Sprintf("parseAofCommand did not end with io.EOF on a well-formed stream: %v", err)})
		return
	}
	byOff := map[int64]cmdExecution{}
	for _, x := range outs {
		if _, dup := byOff[x.Offset]; dup {
			violate("two outputs carry the same source offset", "C10:"+layer+":duplicate-output", map[string]interface{}{"offset": x.Offset, "cmd": x.Cmd})
		}
		byOff[x.Offset] = x
	}
	seen := 0
	for _, it := range items {
		evals++
		x, got := byOff[start+it.end]
		if got {
			seen++
		}
		bits = append(bits, "01"[b2i(got)])
		if it.sel {
			// a SELECT comes out only for a database that is not blacklisted (and only when
			// the target database changes, which is not this property's business)
			if got && (!o.dbOK(it.db) || x.Cmd != "select" || x.Db != cfg.mapDb(it.db)) {
				what := attribute(it.db, "", nil)
				if what == "parse-path" && cfg.mapped() {
					what = "db-mapping"
				}
				violate("a SELECT of a blacklisted source database (or of another target database, or a different command) comes out for a source SELECT", "C10:"+layer+":"+what,
					map[string]interface{}{"source_db": it.db, "statement_says_target_db": cfg.mapDb(it.db), "source_db_blacklisted": !o.dbOK(it.db), "output": fmt.Sprintf("%s %v db=%d", x.Cmd, x.Args, x.Db)})
			}
			continue
		}
		wantFwd, wantArgs, keyIdx, ok := o.decide(it.db, it.cmd, it.args)
		if !ok {
			rep.Exec(scn, nil, mc.Result{Verdict: "machinery", Clause: fmt.Sprintf("oracle has no key rule for generated command %s %q", it.cmd, it.args)})
			return
		}
		var gotArgs [][]byte
		bad := ""
		if got {
			for _, a := range x.Args {
				b, isBytes := a.([]byte)
				if !isBytes {
					bad = fmt.Sprintf("argument of type %T", a)
				}
				gotArgs = append(gotArgs, b)
			}
			if x.Cmd != strings.ToLower(it.cmd) {
				bad = "command name " + x.Cmd
			}
			if x.Db != cfg.mapDb(it.db) {
				bad = fmt.Sprintf("target database %d instead of %d", x.Db, cfg.mapDb(it.db))
			}
		}
		if got == wantFwd && (!got || (bad == "" && argsEq(gotArgs, wantArgs))) {
			continue
		}
		// what does the pure filter, built from the configuration as written, say?
		m := newC10Env(cfg)
		m.evalCmd("x", "x", it.db, strings.ToLower(it.cmd), it.args)
		d := map[string]interface{}{"db": it.db, "source_db_blacklisted": !o.dbOK(it.db), "cmd": it.cmd, "args": qArgs(it.args), "forwarded": got, "statement_says_forwarded": wantFwd,
			"pure_filter_agrees_with_statement": m.fail == nil}
		if got {
			d["forwarded_args"] = qArgs(gotArgs)
			d["forwarded_db"] = x.Db
			if bad != "" {
				d["unexpected"] = bad
			}
		}
		if wantFwd {
			d["statement_says_args"] = qArgs(wantArgs)
		}
		violate("command forwarding through the tool's own filter construction and parser differs from the configured rules",
			sigFor(it.db, it.cmd, it.args, keyIdx, m.fail == nil), d)
	}
	if seen != len(outs) {
		violate("the parser emitted a command whose offset is not the end of any source command", "C10:"+layer+":phantom-output", map[string]interface{}{"outputs": len(outs), "matched": seen})
	}
	// snapshot keys against the real filter object
	for _, db := range []int{0, 1, 2} {
		for _, k := range snapKeys {
			real.evalKey(scn.Part, db, k)
			mirror.evalKey(scn.Part, db, k)
			evals++
			bits = append(bits, "01"[b2i(real.bits[len(real.bits)-1] == '1')])
		}
	}
	if fail == nil && real.fail != nil {
		r := *real.fail
		if mirror.fail == nil { // the pure filter is right on the same key: construction / loading differs
			kb := []byte(*real.fscn.Key)
			r.Sig = "C10:" + layer + ":" + attribute(real.fscn.Db, "", [][]byte{kb})
		}
		fail = &r
	}
	if fail != nil {
		if m, isMap := fail.Detail.(map[string]interface{}); isMap {
			m["tool_filter_config"] = fmt.Sprintf("%+v", scn.Cfg.toolView)
		}
		rep.Exec(scn, nil, *fail)
		return
	}
	scn.N = evals
	nontrivial := bytes.IndexByte(bits, '1') >= 0 && bytes.IndexByte(bits, '0') >= 0
	rep.Exec(scn, nil, mc.OK(mc.Hash(scn.Part, scn.Cfg.key(), string(bits)), nontrivial, evals))
}

func b2i(b bool) int {
	if b {
		return 1
	}
	return 0
}

func (c *c10Cfg) key() string {
	return fmt.Sprintf("%v|%v|%q|%q|%v|%q|%v%v%v|%s|%d|%v", c.SlotWhite, c.SlotBlack, bs2s(c.PfxWhite), bs2s(c.PfxBlack), c.DbBlack, c.CmdBlack, c.KeyFilterSet, c.SlotFilterSet, c.Cluster, c.Via,
		c.targetDb(), c.TargetDbMap)
}

func (c *c10Cfg) targetDb() int {
	if c.TargetDb == nil {
		return -1
	}
	return *c.TargetDb
}

func (c *c10Cfg) mapped() bool { return c.targetDb() != -1 || len(c.TargetDbMap) > 0 }

// mapDb: the target database of a source database (docs/sync_configuration: targetDb = the
// one database of the output everything is synced into, -1 = the input's own database;
// targetDbMap = per-database mapping; targetDb takes precedence).
func (c *c10Cfg) mapDb(src int) int {
	if t := c.targetDb(); t != -1 {
		return t
	}
	if d, ok := c.TargetDbMap[src]; ok {
		return d
	}
	return src
}

// ---------------------------------------------------------------------------
// the grid of configurations

type c10Grid struct {
	dbs   [][]int
	cmds  [][]string
	keyF  []c10Cfg // only the key-filter fields are used
	slotF []c10Cfg // only the slot-filter fields are used
}

func c10MakeGrid(sA, sB uint16) c10Grid {
	g := c10Grid{
		dbs:  [][]int{nil, {1}, {1, 2, 1}},
		cmds: [][]string{nil, {"SET"}, {"set", "Setex", "DEL"}},
	}
	g.keyF = append(g.keyF, c10Cfg{}, c10Cfg{KeyFilterSet: true})
	for _, b := range [][]bstr{nil, {"b"}, {"a", "ab"}} {
		for _, w := range [][]bstr{nil, {"a"}, {"a", "ab", "c"}} {
			if len(b)+len(w) > 0 {
				g.keyF = append(g.keyF, c10Cfg{PfxBlack: b, PfxWhite: w})
			}
		}
	}
	g.slotF = append(g.slotF, c10Cfg{}, c10Cfg{SlotFilterSet: true})
	for _, b := range [][][]uint16{nil, {{sB}}, {{0, 100}, {50, 9000}, {sA}}} {
		for _, w := range [][][]uint16{nil, {{sA}}, {{0, 8191}, {100, 200}, {sB, sB}}} {
			if len(b)+len(w) > 0 {
				g.slotF = append(g.slotF, c10Cfg{SlotBlack: b, SlotWhite: w})
			}
		}
	}
	return g
}

func (g c10Grid) each(f func(c c10Cfg)) {
	for _, db := range g.dbs {
		for _, cm := range g.cmds {
			for _, k := range g.keyF {
				for _, s := range g.slotF {
					f(c10Cfg{DbBlack: db, CmdBlack: cm, PfxBlack: k.PfxBlack, PfxWhite: k.PfxWhite, KeyFilterSet: k.KeyFilterSet,
						SlotBlack: s.SlotBlack, SlotWhite: s.SlotWhite, SlotFilterSet: s.SlotFilterSet})
				}
			}
		}
	}
}

var c10SnapKeys = []string{"a", "ab", "b", "c", "", "\xff", "/redis-gunyu/x", "redis-gunyu-checkpoint-hash", "{b}x", "x{a}"}

// c10RunReal: one configuration through NewRedisOutput.
func c10RunReal(rep *mc.Reporter, cfg c10Cfg, data []byte, items []c10Item) {
	typ := config.RedisTypeStandalone
	if cfg.Cluster {
		typ = config.RedisTypeCluster
	}
	fc := c10FilterConfig(&cfg)
	cfg.toolView = fc
	ro := NewRedisOutput(c10OutputConfig(fc, config.RedisConfig{Addresses: []string{"target:6379"}, Type: typ, Otype: typ, Version: "7.2.0"}, cfg.targetDb(), cfg.TargetDbMap))
	c10Judge(rep, c10Scn{Part: "real", What: "config", Cfg: cfg}, ro, "construction", data, items, c10SnapKeys)
}

// ro10FilterWrongOnKey: does the filter the tool builds from fc misjudge this key name?
func ro10FilterWrongOnKey(fc config.FilterConfig, cfg *c10Cfg, key string) bool {
	ro := NewRedisOutput(c10OutputConfig(fc, config.RedisConfig{Addresses: []string{"target:6379"}, Type: config.RedisTypeStandalone, Otype: config.RedisTypeStandalone, Version: "7.2.0"}, -1, nil))
	return (ro.outFilter.FilterKey(key) || ro.outFilter.FilterSlot(key)) == c10Statement(cfg).keyOK([]byte(key))
}

// c10RunSnapshot: the same configuration on the SNAPSHOT path - a generated RDB file with
// keys in databases 0,1,2 goes through the real RedisOutput.Send (rdb loader, rdbReplay,
// RdbReplay, RedisConn) against the redisd double; judged on where the keys end up.
// Rule (the same as on the command path): a key arrives iff its SOURCE database is not
// blacklisted and its name is accepted, and it arrives in the mapped database.
func c10RunSnapshot(rep *mc.Reporter, cfg c10Cfg) {
	scn := c10Scn{Part: "snapshot", What: "config", Cfg: cfg}
	o := c10Statement(&cfg)
	names := []string{"k", "b", "/redis-gunyu/x", "redis-gunyu-checkpoint"}
	rs := rdbScenario{Version: 11, Aux: true, Cfg: rdbCfg{Restore: false, BulkLen: 1 << 30, Parallel: 1, DbMode: "id", Resume: false}}
	for _, db := range []int{0, 1, 2} {
		for _, n := range names {
			rs.Keys = append(rs.Keys, rdbKeySpec{DB: db, Key: fmt.Sprintf("%s%d", n, db), Case: "string/short", Enc: ref.RDBEnc{Kind: "raw"}, Idle: -1, Freq: -1})
		}
	}
	fc := c10FilterConfig(&cfg)
	var out *rdbOutcome
	var buildErr error
	msg := bubble(c10T, func() {
		built, err := rdbBuild(rs, time.Now().UnixMilli())
		if err != nil {
			buildErr = err
			return
		}
		out = rdbRun(rs, built, nil, &rdbHooks{NoPark: true, OutputCfg: func(oc RedisOutputConfig) RedisOutputConfig {
			oc.Filter, oc.TargetDb, oc.TargetDbMap = fc, cfg.targetDb(), cfg.TargetDbMap
			return oc
		}})
	})
	if msg != "" || buildErr != nil || out == nil || !out.Ended || out.Err != nil || out.LeakCheck != "" {
		var e error
		if out != nil {
			e = out.Err
		}
		rep.Exec(scn, nil, mc.Result{Verdict: "machinery", Clause: fmt.Sprintf("snapshot replay did not complete: bubble=%q build=%v err=%v", msg, buildErr, e)})
		return
	}
	where := map[string][]int{}
	for db := 0; db < 16; db++ {
		for _, k := range out.Srv.Keys(db) {
			where[k] = append(where[k], db)
		}
	}
	var bits []byte
	for _, k := range rs.Keys {
		got := where[k.Key]
		want := o.dbOK(k.DB) && o.keyOK([]byte(k.Key))
		bits = append(bits, "01"[b2i(len(got) > 0)])
		ok := (!want && len(got) == 0) || (want && len(got) == 1 && got[0] == cfg.mapDb(k.DB))
		if ok {
			continue
		}
		what := "db-mapping"
		if (len(got) > 0) != want && o.dbOK(k.DB) && ro10FilterWrongOnKey(fc, &cfg, k.Key) {
			what = "key" // the filter object itself misjudges the key name; otherwise it is the database handling
		}
		rep.Exec(scn, nil, mc.Violation("snapshot key does not arrive where the configured rules say", "C10:snapshot-path:"+what,
			map[string]interface{}{"key": k.Key, "source_db": k.DB, "source_db_blacklisted": !o.dbOK(k.DB), "key_accepted": o.keyOK([]byte(k.Key)),
				"statement_says_forwarded": want, "statement_says_target_db": cfg.mapDb(k.DB), "found_in_target_dbs": got}))
		return
	}
	inSnapshot := map[string]bool{}
	for _, sk := range rs.Keys {
		inSnapshot[sk.Key] = true
	}
	var extra []string
	for k := range where {
		if !inSnapshot[k] {
			extra = append(extra, k)
		}
	}
	if len(extra) > 0 {
		sort.Strings(extra)
		rep.Exec(scn, nil, mc.Violation("the target holds a key the snapshot does not contain", "C10:snapshot-path:phantom", map[string]interface{}{"keys": extra}))
		return
	}
	scn.N = len(rs.Keys)
	rep.Exec(scn, nil, mc.OK(mc.Hash("snapshot", cfg.key(), string(bits)), bytes.IndexByte(bits, '1') >= 0 && bytes.IndexByte(bits, '0') >= 0, len(rs.Keys)))
}

// ---------------------------------------------------------------------------
// configuration text

func yamlInts(style string, indent string, name string, v []int) string {
	if v == nil {
		return ""
	}
	if style == "flow" {
		s := make([]string, len(v))
		for i, x := range v {
			s[i] = strconv.Itoa(x)
		}
		return fmt.Sprintf("%s%s: [%s]\n", indent, name, strings.Join(s, ", "))
	}
	out := fmt.Sprintf("%s%s:\n", indent, name)
	for _, x := range v {
		out += fmt.Sprintf("%s  - %d\n", indent, x)
	}
	return out
}

func yamlStrs(style string, indent string, name string, v []string) string {
	if v == nil {
		return ""
	}
	if style == "flow" {
		s := make([]string, len(v))
		for i, x := range v {
			s[i] = strconv.Quote(x)
		}
		return fmt.Sprintf("%s%s: [%s]\n", indent, name, strings.Join(s, ", "))
	}
	out := fmt.Sprintf("%s%s:\n", indent, name)
	for _, x := range v {
		out += fmt.Sprintf("%s  - %s\n", indent, x)
	}
	return out
}

func yamlSlots(style string, indent string, name string, v [][]uint16) string {
	if v == nil {
		return ""
	}
	one := func(r []uint16) string {
		s := make([]string, len(r))
		for i, x := range r {
			s[i] = strconv.Itoa(int(x))
		}
		return "[" + strings.Join(s, ", ") + "]"
	}
	if style == "flow" {
		s := make([]string, len(v))
		for i, r := range v {
			s[i] = one(r)
		}
		return fmt.Sprintf("%s%s: [%s]\n", indent, name, strings.Join(s, ","))
	}
	out := fmt.Sprintf("%s%s:\n", indent, name)
	for _, r := range v {
		out += fmt.Sprintf("%s  -\n", indent)
		for _, x := range r {
			out += fmt.Sprintf("%s    - %d\n", indent, x)
		}
	}
	return out
}

// c10Yaml writes the configuration file of a sync job whose output.filter section is cfg.
func c10Yaml(cfg *c10Cfg, style string) string {
	typ := "standalone"
	if cfg.Cluster {
		typ = "cluster"
	}
	var sb strings.Builder
	sb.WriteString("input:\n  redis:\n    addresses: [127.0.0.1:16300]\n    type: standalone\n")
	sb.WriteString("channel:\n  storer:\n    dirPath: /nonexistent/verif\n")
	sb.WriteString("output:\n  redis:\n    addresses: [127.0.0.1:6707]\n    type: " + typ + "\n")
	sb.WriteString("  replay:\n    resumeFromBreakPoint: false\n")
	filter := yamlInts(style, "    ", "dbBlacklist", cfg.DbBlack) + yamlStrs(style, "    ", "commandBlacklist", cfg.CmdBlack)
	if cfg.KeyFilterSet || len(cfg.PfxBlack)+len(cfg.PfxWhite) > 0 {
		inner := yamlStrs(style, "      ", "prefixKeyWhitelist", strs(cfg.PfxWhite)) + yamlStrs(style, "      ", "prefixKeyBlacklist", strs(cfg.PfxBlack))
		if inner == "" {
			filter += "    keyFilter: {}\n"
		} else {
			filter += "    keyFilter:\n" + inner
		}
	}
	if cfg.SlotFilterSet || len(cfg.SlotBlack)+len(cfg.SlotWhite) > 0 {
		inner := yamlSlots(style, "      ", "keySlotWhitelist", cfg.SlotWhite) + yamlSlots(style, "      ", "keySlotBlacklist", cfg.SlotBlack)
		if inner == "" {
			filter += "    slotFilter: {}\n"
		} else {
			filter += "    slotFilter:\n" + inner
		}
	}
	if filter != "" {
		sb.WriteString("  filter:\n" + filter)
	}
	return sb.String()
}

func strs(b []bstr) []string {
	if b == nil {
		return nil
	}
	return bs2s(b)
}

// c10RunYaml: configuration text -> InitSyncerConfig -> the Filter value syncer.go hands
// to NewRedisOutput.
func c10RunYaml(rep *mc.Reporter, cfg c10Cfg, style string, data []byte, items []c10Item) {
	cfg.Via = "yaml:" + style
	scn := c10Scn{Part: "yaml", What: "config", Cfg: cfg}
	text := c10Yaml(&cfg, style)
	dir := os.Getenv("VERIF_SCRATCH")
	if dir == "" {
		dir = os.TempDir()
	}
	path := filepath.Join(dir, "c10.yaml")
	if err := os.WriteFile(path, []byte(text), 0o600); err != nil {
		rep.Exec(scn, nil, mc.Result{Verdict: "machinery", Clause: "cannot write the configuration file: " + err.Error()})
		return
	}
	*config.GetSyncerConfig() = config.SyncConfig{} // a fresh process has a zero configuration
	if err := config.InitSyncerConfig(path); err != nil {
		rep.Exec(scn, nil, mc.Result{Verdict: "machinery", Clause: "the generated configuration does not load: " + err.Error(), Detail: text})
		return
	}
	sc := config.GetSyncerConfig()
	// what syncer.go:runOutput passes on (Redis, TargetDb, TargetDbMap, Filter)
	cfg.toolView = sc.Output.Filter
	scn.Cfg = cfg
	ro := NewRedisOutput(c10OutputConfig(sc.Output.Filter, *sc.Output.Redis, sc.Output.Replay.TargetDb, sc.Output.Replay.TargetDbMap))
	c10Judge(rep, scn, ro, "config-load", data, items, c10SnapKeys)
}

// c10RunFlags: the command-line spellings of the three list types.
func c10RunFlags(rep *mc.Reporter, cfg c10Cfg, data []byte, items []c10Item) {
	cfg.Via = "flags"
	scn := c10Scn{Part: "flags", What: "config", Cfg: cfg}
	fc := config.FilterConfig{}
	fail := func(err error) {
		rep.Exec(scn, nil, mc.Result{Verdict: "machinery", Clause: "flag value not accepted: " + err.Error()})
	}
	if cfg.DbBlack != nil {
		s := make([]string, len(cfg.DbBlack))
		for i, x := range cfg.DbBlack {
			s[i] = strconv.Itoa(x)
		}
		if err := fc.DbBlacklist.Set(strings.Join(s, ",")); err != nil {
			fail(err)
			return
		}
	}
	if cfg.CmdBlack != nil {
		if err := fc.CmdBlacklist.Set(strings.Join(cfg.CmdBlack, ",")); err != nil {
			fail(err)
			return
		}
	}
	slots := func(v [][]uint16) string {
		s := make([]string, len(v))
		for i, r := range v {
			p := make([]string, len(r))
			for j, x := range r {
				p[j] = strconv.Itoa(int(x))
			}
			s[i] = "[" + strings.Join(p, ",") + "]"
		}
		return strings.Join(s, ",")
	}
	if len(cfg.PfxBlack)+len(cfg.PfxWhite) > 0 {
		fc.KeyFilter = &config.FilterKeyConfig{}
		if len(cfg.PfxWhite) > 0 {
			if err := fc.KeyFilter.PrefixKeyWhitelist.Set(strings.Join(bs2s(cfg.PfxWhite), ",")); err != nil {
				fail(err)
				return
			}
		}
		if len(cfg.PfxBlack) > 0 {
			if err := fc.KeyFilter.PrefixKeyBlacklist.Set(strings.Join(bs2s(cfg.PfxBlack), ",")); err != nil {
				fail(err)
				return
			}
		}
	}
	if len(cfg.SlotBlack)+len(cfg.SlotWhite) > 0 {
		fc.SlotFilter = &config.FilterSlotConfig{}
		if len(cfg.SlotWhite) > 0 {
			if err := fc.SlotFilter.KeySlotWhitelist.Set(slots(cfg.SlotWhite)); err != nil {
				fail(err)
				return
			}
		}
		if len(cfg.SlotBlack) > 0 {
			if err := fc.SlotFilter.KeySlotBlacklist.Set(slots(cfg.SlotBlack)); err != nil {
				fail(err)
				return
			}
		}
	}
	cfg.toolView = fc
	scn.Cfg = cfg
	ro := NewRedisOutput(c10OutputConfig(fc, config.RedisConfig{Addresses: []string{"target:6379"}, Type: config.RedisTypeStandalone, Otype: config.RedisTypeStandalone, Version: "7.2.0"}, -1, nil))
	c10Judge(rep, scn, ro, "config-load", data, items, c10SnapKeys)
}

// c10RunToolFamilies enumerates the three families (called from runC10).
func c10RunToolFamilies(rep *mc.Reporter, mine func() bool, thorough bool) {
	sA, sB := uint16(ref.HashSlotS("a")), uint16(ref.HashSlotS("b"))
	data, items := c10BuildStream(c10StreamCommands(sA, sB))
	g := c10MakeGrid(sA, sB)
	// real: the whole grid, standalone and cluster output
	for _, cluster := range []bool{false, true} {
		cl := cluster
		g.each(func(c c10Cfg) {
			if !mine() {
				return
			}
			rep.Scenario()
			c.Cluster = cl
			c.Via = "NewRedisOutput"
			c10RunReal(rep, c, data, items)
		})
	}
	// dbmap: the database blacklist crossed with the replay's database mapping, on the command
	// path (parseAofCommand) and on the snapshot path (Send of an RDB file)
	for _, dbl := range [][]int{nil, {1}, {0}, {1, 2}} {
		for _, tdb := range []int{-1, 0, 2} {
			for _, m := range []map[int]int{nil, {0: 1, 1: 2}, {1: 0}, {0: 1, 1: 0}} {
				for _, pb := range [][]bstr{nil, {"b"}} {
					c := c10Cfg{DbBlack: dbl, TargetDbMap: m, PfxBlack: pb, Via: "NewRedisOutput"}
					if tdb != -1 {
						t := tdb
						c.TargetDb = &t
					}
					if mine() {
						rep.Scenario()
						c10RunReal(rep, c, data, items)
					}
					if mine() {
						rep.Scenario()
						c10RunSnapshot(rep, c)
					}
				}
			}
		}
	}
	// yaml: a sub-grid (every list absent / one entry / several entries) in two spellings
	yg := g
	if !thorough {
		yg.keyF = []c10Cfg{g.keyF[0], g.keyF[1], {PfxBlack: []bstr{"b"}}, {PfxBlack: []bstr{"a", "ab"}, PfxWhite: []bstr{"a"}}}
		yg.slotF = []c10Cfg{g.slotF[0], g.slotF[1], {SlotBlack: [][]uint16{{sB}}}, {SlotWhite: [][]uint16{{0, 8191}, {100, 200}, {sB, sB}}, SlotBlack: [][]uint16{{0, 100}, {50, 9000}, {sA}}}}
	}
	for _, cluster := range []bool{false, true} {
		for _, style := range []string{"flow", "block"} {
			cl, st := cluster, style
			yg.each(func(c c10Cfg) {
				if !mine() {
					return
				}
				rep.Scenario()
				c.Cluster = cl
				c10RunYaml(rep, c, st, data, items)
			})
		}
	}
	// flags
	yg.each(func(c c10Cfg) {
		if c.KeyFilterSet || c.SlotFilterSet {
			return // no flag spelling for "section present, lists absent"
		}
		if !mine() {
			return
		}
		rep.Scenario()
		c10RunFlags(rep, c, data, items)
	})
}

// c10Replay re-runs one configuration of the tool families.
func c10ReplayTool(rep *mc.Reporter, s c10Scn) {
	sA, sB := uint16(ref.HashSlotS("a")), uint16(ref.HashSlotS("b"))
	data, items := c10BuildStream(c10StreamCommands(sA, sB))
	switch s.Part {
	case "real":
		c10RunReal(rep, s.Cfg, data, items)
	case "snapshot":
		c10RunSnapshot(rep, s.Cfg)
	case "yaml":
		c10RunYaml(rep, s.Cfg, strings.TrimPrefix(s.Cfg.Via, "yaml:"), data, items)
	case "flags":
		c10RunFlags(rep, s.Cfg, data, items)
	}
}

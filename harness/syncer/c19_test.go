package syncer

import (
	"context"
	"encoding/json"
	"fmt"
	"os"
	"sort"
	"strings"
	"testing"
	"time"

	"github.com/mgtv-tech/redis-GunYu/config"
	"github.com/mgtv-tech/redis-GunYu/verifshim/clusterd"
	"github.com/mgtv-tech/redis-GunYu/verifshim/mc"
	"github.com/mgtv-tech/redis-GunYu/verifshim/redisd"
	"github.com/mgtv-tech/redis-GunYu/verifshim/ref"
	"github.com/mgtv-tech/redis-GunYu/verifshim/vnet"
	"github.com/mgtv-tech/redis-GunYu/verifshim/vtime"
)

func init() { verifChecks["C19"] = runC19 }

// ---------------------------------------------------------------------------
// C19: the plain (non-bisync) incremental replay into a 3-node cluster double while
// slots migrate. Every data request the tool sends is PARKED at its node; the explorer
// decides which parked request is processed next, when the next stream item arrives,
// and where topology steps fall - between any two requests, i.e. also in the middle of a
// batch and while the pipelined sender is ahead of the receiver.

type c19Scenario struct {
	Keys     []int    `json:"keys"`     // per stream write: index into c19Keys
	Cfg      aofCfg   `json:"cfg"`
	Topo     []string `json:"topo"`     // topology steps, applied in order when the explorer says so
	SameNode bool     `json:"same_node"` // transactional mode: every key and the checkpoint live on node 0
	Init     []string `json:"init,omitempty"`  // topology steps already applied when the replay starts
	Sleep    bool     `json:"sleep,omitempty"` // "one second passes" is an explorer action (in-run retry sleeps)
	Defer    bool     `json:"defer,omitempty"` // default order: a request passed over once waits behind newer requests, items and sleeps
	Burst    bool     `json:"burst,omitempty"` // the whole stream arrives in one read (several batches are dispatched before any reply)
	Preempt  bool     `json:"preempt,omitempty"`
	Plan     []string `json:"plan,omitempty"` // preemption plan over the wake-up statements of the cluster client and syncer/output.go
}

// keys: two keys in slot of {t} (node 0), one key on node 1, one more slot on node 0
var c19Keys = []string{"a{t}", "b{t}", "c{w}", "d{q}"}

func c19SlotOf(i int) int { return ref.HashSlotS(c19Keys[i]) }

// c19Layout: slot({t}) and slot({q}) -> node 0, slot({w}) -> node 1, everything else by range; node 2 owns a
// range too but none of the keys (migration target).
func c19Layout(slot int) int {
	switch slot {
	case ref.HashSlotS("{t}"), ref.HashSlotS("{q}"), ref.HashSlotS("{cp}"):
		return 0
	case ref.HashSlotS("{w}"):
		return 1
	}
	return clusterd.EvenLayout(3)(slot)
}

func c19ClusterCfg() config.RedisConfig {
	rc := config.RedisConfig{Addresses: append([]string(nil), clusterAddrs...), Type: config.RedisTypeCluster, Otype: config.RedisTypeCluster, Version: "7.2.0",
		ClusterOptions: &config.RedisClusterOptions{HandleMoveErr: true, HandleAskErr: true}}
	var shards []*config.RedisClusterShard
	start := 0
	for s := 1; s <= 16384; s++ {
		if s == 16384 || c19Layout(s) != c19Layout(start) {
			shards = append(shards, &config.RedisClusterShard{Slots: config.RedisSlots{Ranges: []config.RedisSlotRange{{Left: start, Right: s - 1}}}, Master: config.RedisNode{Address: clusterAddrs[c19Layout(start)]}})
			start = s
		}
	}
	// merge shards of the same master
	byNode := map[string]*config.RedisClusterShard{}
	var merged []*config.RedisClusterShard
	for _, sh := range shards {
		if m, ok := byNode[sh.Master.Address]; ok {
			m.Slots.Ranges = append(m.Slots.Ranges, sh.Slots.Ranges...)
		} else {
			byNode[sh.Master.Address] = sh
			merged = append(merged, sh)
		}
	}
	rc.SetClusterShards(merged)
	return rc
}

func c19IsData(argv [][]byte) bool {
	switch strings.ToLower(string(argv[0])) {
	case "cluster", "ping", "info", "command", "auth", "select":
		return false
	}
	return !redisd.NonData(string(argv[0]))
}

type c19Rec struct {
	Log       []*redisd.Req
	Events    []string
	RunErrs   []string // Send result per run ("" = still running when judged)
	Resumes   []int64
	RunStart  []int64 // cluster stamp at which each run began
	BadResume int64
	Healthy   bool // some run consumed the whole stream and kept running
	Steps     int
	Horizon   bool
	Seen      []string
	Hit       []string
}

func c19Exec(t *testing.T, scn c19Scenario, ch *mc.Chooser) (rec c19Rec, machinery string) {
	msg := bubble(t, func() {
		if scn.Preempt {
			pre := installPreempt(scn.Plan)
			curPre = pre
			pre.armed = true
			defer func() {
				rec.Seen, rec.Hit = pre.seen, pre.hit
				curPre = nil
				pre.remove()
			}()
		}
		vnet.Reset()
		vtime.Reset()
		vtime.Register(durBatch, "batch")
		vtime.Register(durKeep, "keepalive")
		vtime.Register(durCp, "cp")
		cl := clusterd.New(clusterAddrs, c19Layout)
		setPark := func(on bool) {
			for _, n := range cl.Nodes {
				p := n.PlanRef()
				p.Park = on
				p.ParkFilter = c19IsData
			}
		}
		setPark(true)
		rc := c19ClusterCfg()
		cfg := scn.Cfg.outputConfig("redis-gunyu-checkpoint{cp}")
		cfg.Redis = rc
		cfg.Filter = config.FilterConfig{}
		type sitem struct {
			raw []byte
			end int64
		}
		var items []sitem
		off := aofS0
		for i, ki := range scn.Keys {
			raw := redisd.EncodeCommandS("SET", c19Keys[0], "unused")
			if ki == 9 {
				// a command a healthy node answers with a nil reply and that changes nothing (the list does
				// not exist); it lives in the slot of {t}, like keys 0 and 1
				raw = redisd.EncodeCommandS("LPOP", "nl{t}")
			} else if ki == -2 {
				// a multi-key command on two keys of one slot: while that slot migrates and only one
				// of the keys has moved, its owner answers TRYAGAIN
				raw = redisd.EncodeCommandS("DEL", c19Keys[0], c19Keys[1])
			} else if ki < 0 {
				// a multi-key command whose keys live on different nodes: not routable as one
				// command; the replay must report it, not drop it (or its batch) silently
				raw = redisd.EncodeCommandS("DEL", c19Keys[0], c19Keys[2])
			} else {
				raw = redisd.EncodeCommandS("SET", c19Keys[ki], fmt.Sprintf("v%d", i))
			}
			_ = raw
			off += int64(len(raw))
			items = append(items, sitem{raw, off})
		}
		topo := 0
		type parked struct{ node, conn int }
		listParked := func() []parked {
			var out []parked
			for ni, n := range cl.Nodes {
				for _, c := range n.ParkedConns() {
					out = append(out, parked{ni, c})
				}
			}
			return out
		}
		applyTopo := func(step string) {
			slot := c19SlotOf(0)
			switch step {
			case "Pa", "Pb":
				// the key exists on its owner before the replay starts
				k := c19Keys[int(step[1]-'a')]
				cl.Nodes[cl.Owner(ref.HashSlotS(k))].Put(0, k, &redisd.Value{T: 's', Str: []byte("preloaded")})
			case "M":
				cl.SetMigrating(slot, 2)
			case "Ka":
				cl.MoveKey(slot, c19Keys[0])
			case "Kb":
				cl.MoveKey(slot, c19Keys[1])
			case "F":
				cl.Finish(slot)
			case "O":
				cl.SetOwner(slot, 2)
			case "Ow":
				cl.SetOwner(c19SlotOf(2), 2)
			case "Mw":
				cl.SetMigrating(c19SlotOf(2), 2)
			case "X2":
				// node 2 (owner of none of the keys so far) stops accepting connections: an address a
				// MOVED/ASK answer names may not be reachable from where the tool runs
				cl.Nodes[2].Crash()
			case "K2":
				cl.Nodes[2].DropParked()
				cl.Nodes[2].KillConns()
			case "E0", "E1":
				// the next request node 0 / node 1 processes is answered with an error reply, once
				n := cl.Nodes[int(step[1]-'0')]
				pl := n.PlanRef()
				if pl.FailAt == nil {
					pl.FailAt = map[int]string{}
				}
				pl.FailAt[n.NumReqs()+1] = "ERR injected failure"
			case "L0", "L1":
				// node 0 / 1 executes what it has received, then loses its connections before any reply left
				cl.Nodes[int(step[1]-'0')].ExecParkedThenKill()
			case "K1":
				// transient failure of node 1: its connections are lost together with what was in flight
				cl.Nodes[1].DropParked()
				cl.Nodes[1].KillConns()
			}
		}
		for _, st := range scn.Init {
			applyTopo(st)
		}
		startOffset := aofS0
		for runNo := 0; runNo < 3; runNo++ {
			ro := NewRedisOutput(cfg)
			pos := 0
			rec.RunStart = append(rec.RunStart, cl.Clock())
			if runNo > 0 {
				// a reported restart: the next start resumes from the stored position. Start-up
				// requests are not parked (they are not part of the replay under test) and an
				// injected error reply that no request of the previous run met is dropped.
				for _, n := range cl.Nodes {
					n.PlanRef().FailAt = nil
				}
				setPark(false)
				sp, err := ro.StartPoint(context.Background(), []string{aofRunID, biRunID2})
				setPark(true)
				if err != nil {
					unreachable := false
					for _, st := range append(append([]string{}, scn.Init...), scn.Topo...) {
						if strings.HasPrefix(st, "X") {
							unreachable = true
						}
					}
					if unreachable {
						// a node of the cluster refuses connections: the restart cannot even read its
						// position. The tool would try again later; nothing more is executed in this
						// history, which is judged on what the cluster executed so far (not 'healthy').
						rec.Events = append(rec.Events, "restart could not start: "+err.Error())
						rec.RunErrs = append(rec.RunErrs, "restart could not start: "+err.Error())
						return
					}
					machinery = "restart: StartPoint failed: " + err.Error()
					return
				}
				startOffset = sp.Offset
				if sp.IsInitial() || sp.Offset < aofS0 {
					startOffset = aofS0 // no position yet: the stream is replayed from its beginning
				}
				pos = -1
				if startOffset == aofS0 {
					pos = 0
				}
				for i := range items {
					if items[i].end == startOffset {
						pos = i + 1
					}
				}
				if pos < 0 {
					rec.BadResume = startOffset
					break
				}
				rec.Resumes = append(rec.Resumes, startOffset)
			}
			g := newGate()
			ctx, cancel := context.WithCancel(context.Background())
			done := make(chan error, 1)
			rd := newHReader(g, aofRunID, startOffset, -1, true)
			go func() { done <- ro.Send(ctx, rd) }()
			aofWait()
			ended := false
			var sendErr error
			poll := func() {
				if ended {
					return
				}
				select {
				case sendErr = <-done:
					ended = true
				default:
				}
			}
			poll()
			idle := 0
			flushed := 0
			sleeps := 0
			deferred := map[parked]bool{}
			for step := 0; step < 400+4*len(items) && !ended; step++ {
				rec.Steps++
				pk := listParked()
				type act struct {
					kind string
					p    parked
				}
				var menu []act
				for p := range deferred {
					still := false
					for _, q := range pk {
						if q == p {
							still = true
						}
					}
					if !still {
						delete(deferred, p)
					}
				}
				for i := len(pk) - 1; i >= 0; i-- {
					if scn.Defer && !deferred[pk[i]] {
						menu = append(menu, act{"req", pk[i]}) // highest node first
					}
				}
				if !scn.Defer {
					for _, p := range pk {
						menu = append(menu, act{"req", p})
					}
				}
				if pos < len(items) {
					menu = append(menu, act{kind: "item"})
				}
				if scn.Sleep && len(pk) > 0 && sleeps < 3 {
					menu = append(menu, act{kind: "sleep"})
				}
				if scn.Defer {
					for _, p := range pk {
						if deferred[p] {
							menu = append(menu, act{"req", p})
						}
					}
				}
				if topo < len(scn.Topo) {
					menu = append(menu, act{kind: "topo"})
				}
				if len(pk) == 0 && pos >= len(items) {
					// nothing pending: flush with a batch tick, store the position with a checkpoint
					// tick, then let virtual time pass (retry sleeps) until nothing happens any more
					if flushed < 2 {
						if flushed == 0 {
							vtime.Fire("batch")
						} else if !scn.Cfg.Txn {
							vtime.Fire("cp")
						}
						flushed++
						aofWait()
						poll()
						continue
					}
					if idle >= 4 {
						break
					}
					idle++
					time.Sleep(1100 * time.Millisecond)
					aofWait()
					poll()
					continue
				}
				idle = 0
				if len(menu) == 1 && menu[0].kind == "topo" {
					break // only unused topology steps remain
				}
				// default = first entry (lowest node/connection parked request, else the next item);
				// a topology step and any other order cost one deviation
				costs := make([]int, len(menu))
				for i := range costs {
					if i > 0 {
						costs[i] = 1
					}
				}
				a := menu[ch.ChooseCost(fmt.Sprintf("r%d.s%d", runNo, step), costs)]
				if scn.Defer {
					for _, m := range menu {
						if m.kind == "req" && !(a.kind == "req" && a.p == m.p) {
							deferred[m.p] = true
						}
					}
				}
				switch a.kind {
				case "req":
					cl.Nodes[a.p.node].Step(a.p.conn, 1)
				case "item":
					g.Release(items[pos].raw)
					pos++
					for scn.Burst && pos < len(items) {
						g.Release(items[pos].raw)
						pos++
					}
				case "topo":
					applyTopo(scn.Topo[topo])
					topo++
				case "sleep":
					sleeps++
					time.Sleep(1100 * time.Millisecond)
				}
				aofWait()
				poll()
			}
			horizon := !ended && len(listParked()) > 0
			wasEnded := ended
			runErr := ""
			if wasEnded {
				runErr = fmt.Sprint(sendErr)
			}
			rec.RunErrs = append(rec.RunErrs, runErr)
			if !wasEnded && !horizon {
				rec.Healthy = true
				rec.Log = cl.GlobalLog()
			}
			// stop this run: whatever is parked drains, context cancelled, source closed. (A restart
			// happens seconds later; the model assumes every request the old client instance had
			// already written is processed and answered by then.)
			setPark(false)
			for _, n := range cl.Nodes {
				n.Unpark()
			}
			cancel()
			g.Close(nil)
			aofWait()
			poll()
			if !ended {
				time.Sleep(30 * time.Second)
				aofWait()
				poll()
			}
			for _, n := range cl.Nodes {
				n.KillConns()
			}
			aofWait()
			setPark(true)
			if horizon {
				rec.Horizon = true
				break
			}
			if !wasEnded {
				break
			}
		}
		// final teardown: everything still parked drains, every connection ends
		setPark(false)
		for _, n := range cl.Nodes {
			n.Unpark()
		}
		aofWait()
		time.Sleep(5 * time.Second)
		aofWait()
		for _, n := range cl.Nodes {
			n.KillConns()
		}
		aofWait()
		if rec.Log == nil {
			rec.Log = cl.GlobalLog()
		}
		rec.Events = append([]string(nil), cl.Events...)
		for _, n := range cl.Nodes {
			if len(n.MachineryErrors) > 0 {
				machinery = "double: " + strings.Join(n.MachineryErrors, "; ")
			}
		}
	})
	if msg != "" {
		machinery = "bubble: " + msg
	}
	return
}

func oracleC19(scn c19Scenario, rec *c19Rec) mc.Result {
	cls := scn.Cfg.class()
	describe := func() map[string]interface{} {
		var lines []string
		for _, r := range rec.Log {
			if r.Name() == "cluster" || r.Name() == "ping" {
				continue
			}
			lines = append(lines, fmt.Sprintf("@%d n%d %s -> %s", r.Stamp, r.Node, r.String(), r.Reply))
		}
		return map[string]interface{}{"log": lines, "topology_events": rec.Events, "send_results": rec.RunErrs, "resume_offsets": rec.Resumes}
	}
	if rec.Horizon {
		return mc.Result{Verdict: "horizon", Obs: 0}
	}
	if rec.BadResume != 0 {
		return mc.Violation("after a reported restart the stored resume position is not a command boundary", "C19:resume-not-boundary:"+cls, describe())
	}
	for _, e := range rec.RunErrs {
		if e == "<nil>" {
			return mc.Violation("Send returned without an error although the stream is not finished", "C19:silent-return:"+cls, describe())
		}
	}
	// executed business commands in global execution order
	var exec []*redisd.Req
	for _, r := range rec.Log {
		if r.Executed && r.Name() == "set" && len(r.Argv) == 3 && !isBisyncKey(r.Argv[1]) {
			exec = append(exec, r)
		}
		if r.Executed && r.Name() == "del" && !isBisyncKey(r.Argv[1]) {
			exec = append(exec, r)
		}
	}
	sort.SliceStable(exec, func(i, j int) bool { return exec[i].ExecStamp < exec[j].ExecStamp })
	// per key: the source's writes in order ("v<i>" = SET at stream position i, "D<i>" = the one-slot DEL)
	perKeySrc := map[string][]string{}
	delTok := ""
	for i, ki := range scn.Keys {
		if ki == -2 {
			delTok = fmt.Sprintf("D%d", i)
			perKeySrc[c19Keys[0]] = append(perKeySrc[c19Keys[0]], delTok)
			perKeySrc[c19Keys[1]] = append(perKeySrc[c19Keys[1]], delTok)
			continue
		}
		if ki < 0 || ki == 9 {
			continue
		}
		k := c19Keys[ki]
		perKeySrc[k] = append(perKeySrc[k], fmt.Sprintf("v%d", i))
	}
	tryAgainSeen := false
	for _, r := range rec.Log {
		if strings.HasPrefix(r.Reply, "-TRYAGAIN") {
			tryAgainSeen = true
		}
	}
	last := map[string]int{}
	counts := map[string]int{}
	var orderViolation *mc.Result
	for _, r := range exec {
		type eff struct{ k, v string }
		var effs []eff
		if r.Name() == "set" {
			effs = append(effs, eff{string(r.Argv[1]), string(r.Argv[2])})
		} else {
			if delTok == "" {
				continue // the cross-node DEL of the other families is judged by its report only
			}
			for _, a := range r.Argv[1:] {
				effs = append(effs, eff{string(a), delTok})
			}
		}
		for _, e := range effs {
			src := perKeySrc[e.k]
			p := -1
			for i, sv := range src {
				if sv == e.v {
					p = i + 1
				}
			}
			if p < 0 {
				return mc.Violation("the cluster executed a write that is not in the source stream", "C19:invented:"+cls, describe())
			}
			counts[e.k+"="+e.v]++
			if p > last[e.k]+1 && orderViolation == nil {
				sig := fmt.Sprintf("C19:key-order:%s", cls)
				if tryAgainSeen {
					sig += ":after-tryagain"
				}
				v := mc.Violation("per-key order broken: a write took effect before an earlier write of the same key (skip/inversion)", sig, describe())
				orderViolation = &v
				if !tryAgainSeen {
					return v
				}
			}
			last[e.k] = p
		}
	}
	if rec.Healthy {
		for k, src := range perKeySrc {
			if last[k] != len(src) {
				return mc.Violation("a write was lost: the replay is running, everything was flushed, yet the key's last executed write is not the source's last", fmt.Sprintf("C19:lost:%s", cls),
					map[string]interface{}{"key": k, "last_executed_position": last[k], "source_writes": src, "history": describe()})
			}
		}
	}
	if orderViolation != nil {
		// (histories with a TRYAGAIN answer are judged on their final state first: a lasting loss is the graver finding)
		return *orderViolation
	}
	if scn.Cfg.Txn {
		// no write twice within one run
		for ri, st := range rec.RunStart {
			end := int64(1) << 62
			if ri+1 < len(rec.RunStart) {
				end = rec.RunStart[ri+1]
			}
			cnt := map[string]int{}
			for _, r := range exec {
				if r.Stamp > st && r.Stamp <= end && r.Name() == "set" {
					kv := string(r.Argv[1]) + "=" + string(r.Argv[2])
					cnt[kv]++
					if cnt[kv] > 1 {
						return mc.Violation("transactional mode executed a write twice within one run", fmt.Sprintf("C19:repeat:%s", cls), map[string]interface{}{"write": kv, "run": ri, "history": describe()})
					}
				}
			}
		}
	}
	var parts []string
	for _, r := range rec.Log {
		if r.Name() != "cluster" && r.Name() != "ping" {
			parts = append(parts, fmt.Sprintf("n%d %s %s", r.Node, r.String(), r.Reply))
		}
	}
	parts = append(parts, rec.RunErrs...)
	redirected := false
	for _, e := range rec.Events {
		if strings.Contains(e, "MOVED") || strings.Contains(e, "ASK") {
			redirected = true
		}
	}
	res := mc.OK(mc.Hash(parts...), redirected, rec.Steps)
	if os.Getenv("VERIF_REPLAY") != "" {
		res.Detail = describe()
		res.Nontrivial = true
	}
	return res
}

func runC19(t *testing.T, rep *mc.Reporter) {
	shard, nshards := mc.ShardOf()
	tier := mc.Tier()
	budget := &mc.Budget{Deadline: mc.DeadlineFromEnv()}
	var lastSeen, lastHit []string
	exec := func(scn c19Scenario, ch *mc.Chooser) mc.Result {
		rec, mach := c19Exec(t, scn, ch)
		lastSeen, lastHit = rec.Seen, rec.Hit
		if strings.HasPrefix(mach, "bubble: deadlock") && rec.Log != nil {
			// goroutines of the code under test were still blocked after the final teardown.
			// The recorded history is complete; if it breaks the property that is the verdict,
			// otherwise the leak alone is not something this check can judge.
			r := oracleC19(scn, &rec)
			if r.Verdict != "violation" {
				r = mc.Result{Verdict: "leak", Obs: r.Obs}
			}
			return r
		}
		if mach != "" {
			return mc.Result{Verdict: "machinery", Clause: mach}
		}
		return oracleC19(scn, &rec)
	}
	if rp, err := mc.LoadReplay(); err != nil {
		rep.Machinery("cannot load replay: "+err.Error(), nil)
		return
	} else if rp != nil {
		var scn c19Scenario
		if err := json.Unmarshal(rp.Scenario, &scn); err != nil {
			rep.Machinery("bad replay scenario: "+err.Error(), nil)
			return
		}
		rep.Exec(scn, rp.Choices, exec(scn, mc.NewChooser(rp.Choices)))
		return
	}
	cfgs := []aofCfg{
		{Txn: false, Resume: true, Pipeline: false, Count: 2, Bytes: 1 << 20, DbMode: "id"},
		{Txn: false, Resume: true, Pipeline: true, Count: 1, Bytes: 1 << 20, DbMode: "id"},
		{Txn: false, Resume: true, Pipeline: true, Count: 2, Bytes: 1 << 20, DbMode: "id"},
		{Txn: true, Resume: true, Pipeline: false, Count: 2, Bytes: 1 << 20, DbMode: "id"},
		{Txn: true, Resume: true, Pipeline: true, Count: 2, Bytes: 1 << 20, DbMode: "id"},
	}
	streams := [][]int{{0, 0}, {0, 1, 0}, {0, 2, 0}, {0, 0, 0}, {0, 2, 0, 0}, {0, -1, 0}, {2, 0, 0}}
	// (error replies other than redirects - steps "E0"/"E1" - are not part of the scripts: C19 quantifies
	// over slot migrations; a pipelined batch in which one command is refused and the later ones are
	// executed is how any Redis client behaves, and what follows from it is not a statement of C19)
	topos := [][]string{{"O"}, {"M", "F"}, {"M", "Ka", "F"}, {"M", "Ka"}, {"M"}, {"K1", "M"}, {"L1", "M"}, {"L0"}}
	bound := 2
	if tier == "thorough" {
		streams = append(streams, []int{0, 1, 0, 1}, []int{0, 2, 1, 0}, []int{0, 0, 2, 0, 0})
		topos = append(topos, []string{"M", "Kb", "F"}, []string{"O", "Ow"})
		bound = 3
	}
	idx := 0
	fam := os.Getenv("VERIF_FAMILY") // parts: "retry" = only the in-run retry family (C02 includes it)
	for _, st := range streams {
		for _, tp := range topos {
			for _, cfg := range cfgs {
				idx++
				if idx%nshards != shard || budget.Expired() || fam != "" {
					continue
				}
				keys := st
				if cfg.Txn {
					// transactional mode is only enabled when everything lives on one node
					keys = make([]int, len(st))
					for i, k := range st {
						if k == 2 {
							k = 3
						}
						if k < 0 {
							k = 1
						}
						keys[i] = k
					}
				}
				scn := c19Scenario{Keys: keys, Cfg: cfg, Topo: tp, SameNode: cfg.Txn}
				mc.RunScenario(rep, scn, bound, budget, func(ch *mc.Chooser) mc.Result { return exec(scn, ch) })
			}
		}
	}
	// ---- family "nil": a command answered with a nil reply (and changing nothing) in front of writes that
	// are redirected: the reply of every command of a node batch must stay with its command. Batches of
	// up to 4 commands, so that a nil answer, another command and a redirected one share a node batch.
	{
		nstreams := [][]int{{9, 0, 0}, {9, 1, 0}, {0, 9, 1, 0}}
		ncfgs := []aofCfg{
			{Txn: false, Resume: true, Pipeline: false, Count: 4, Bytes: 1 << 20, DbMode: "id"},
			{Txn: false, Resume: true, Pipeline: true, Count: 4, Bytes: 1 << 20, DbMode: "id"},
		}
		ntopos := [][]string{{"O"}, {"M", "F"}, {"M", "Ka", "F"}}
		if tier == "thorough" {
			nstreams = append(nstreams, []int{9, 9, 0, 1}, []int{1, 9, 0, 9, 1})
			ncfgs = append(ncfgs, aofCfg{Txn: true, Resume: true, Pipeline: true, Count: 4, Bytes: 1 << 20, DbMode: "id"})
			ntopos = append(ntopos, []string{"M", "Ka"}, []string{"M"})
		}
		for _, st := range nstreams {
			for _, tp := range ntopos {
				for _, cfg := range ncfgs {
					idx++
					if idx%nshards != shard || budget.Expired() || (fam != "" && fam != "nil") {
						continue
					}
					scn := c19Scenario{Keys: st, Cfg: cfg, Topo: tp, SameNode: cfg.Txn, Burst: true}
					mc.RunScenario(rep, scn, bound, budget, func(ch *mc.Chooser) mc.Result { return exec(scn, ch) })
				}
			}
		}
	}
	// family "retry": both slots already migrating when the replay starts (every first write of a
	// key is answered ASK), the importing node loses its connections once (the redirected command
	// fails: the batch is retried IN the run after a one-second sleep), "one second passes" is an
	// explorer action. What one attempt left in flight can be processed after the retry's requests.
	retryBound := 2
	retryStreams := [][]int{{2, 0, 0, 1}, {0, 2, 0, 1}}
	if tier == "thorough" {
		retryBound = 3
		retryStreams = append(retryStreams, []int{2, 0, 1, 0}, []int{2, 0, 0})
	}
	for _, st := range retryStreams {
		for _, cfg := range []aofCfg{
			{Txn: false, Resume: true, Pipeline: false, Count: 2, Bytes: 1 << 20, DbMode: "id"},
			{Txn: false, Resume: true, Pipeline: true, Count: 2, Bytes: 1 << 20, DbMode: "id"},
		} {
			idx++
			if idx%nshards != shard || budget.Expired() || (fam != "" && fam != "retry") {
				continue
			}
			scn := c19Scenario{Keys: st, Cfg: cfg, Init: []string{"M", "Mw"}, Topo: []string{"K2"}, Sleep: true, Defer: true}
			mc.RunScenario(rep, scn, retryBound, budget, func(ch *mc.Chooser) mc.Result { return exec(scn, ch) })
		}
	}
	// ---- family "tryagain": the slot of {t} is migrating and only one of its two keys has moved when the
	// replay starts; the stream carries a DEL of both keys (answered TRYAGAIN by the owner) followed by a
	// write of the key that is still there, in one flush; the rest of the migration is placed by the explorer
	{
		tb := 2
		tstreams := [][]int{{-2, 1}, {-2, 1, 0}, {1, -2, 1}}
		ttopos := [][]string{{"Kb"}, {"F"}, {"Kb", "F"}, nil}
		if tier == "thorough" {
			tb = 3
			tstreams = append(tstreams, []int{-2, 0, 1}, []int{0, -2, 1, 1})
			ttopos = append(ttopos, []string{"O"})
		}
		for _, st := range tstreams {
			for _, tp := range ttopos {
				for _, cfg := range []aofCfg{
					{Txn: false, Resume: true, Pipeline: false, Count: 2, Bytes: 1 << 20, DbMode: "id"},
					{Txn: false, Resume: true, Pipeline: true, Count: 2, Bytes: 1 << 20, DbMode: "id"},
					{Txn: false, Resume: true, Pipeline: false, Count: 64, Bytes: 1 << 20, DbMode: "id"},
				} {
					idx++
					if idx%nshards != shard || budget.Expired() || (fam != "" && fam != "tryagain") {
						continue
					}
					scn := c19Scenario{Keys: st, Cfg: cfg, Init: []string{"Pa", "Pb", "M", "Ka"}, Topo: tp, Sleep: true}
					mc.RunScenario(rep, scn, tb, budget, func(ch *mc.Chooser) mc.Result { return exec(scn, ch) })
				}
			}
		}
	}
	// ---- family "unreachable": the node that MOVED/ASK answers name does not accept connections
	{
		ub := 1
		ustreams := [][]int{{0, 0}, {0, 1, 0}, {2, 0, 0}}
		utopos := [][]string{{"O"}, {"M"}, {"M", "F"}}
		if tier == "thorough" {
			ub = 2
			ustreams = append(ustreams, []int{0, 2, 0, 0})
		}
		for _, st := range ustreams {
			for _, tp := range utopos {
				for _, cfg := range []aofCfg{
					{Txn: false, Resume: true, Pipeline: false, Count: 2, Bytes: 1 << 20, DbMode: "id"},
					{Txn: false, Resume: true, Pipeline: true, Count: 2, Bytes: 1 << 20, DbMode: "id"},
					{Txn: false, Resume: true, Pipeline: false, Count: 1, Bytes: 1 << 20, DbMode: "id"},
				} {
					idx++
					if idx%nshards != shard || budget.Expired() || (fam != "" && fam != "unreachable") {
						continue
					}
					scn := c19Scenario{Keys: st, Cfg: cfg, Init: []string{"X2"}, Topo: tp, Sleep: true}
					mc.RunScenario(rep, scn, ub, budget, func(ch *mc.Chooser) mc.Result { return exec(scn, ch) })
				}
			}
		}
	}
	// ---- family "burst": the whole stream arrives in one read, so the sender dispatches several batches
	// before the first reply is read: consecutive (transaction) batches for one node are in flight on one
	// node pipeline when the migration step falls
	{
		bb := 2
		bstreams := [][]int{{0, 3, 0, 3}, {0, 3}, {3, 0, 3}}
		if tier == "thorough" {
			bb = 3
			bstreams = append(bstreams, []int{0, 1, 3, 0}, []int{0, 3, 3, 0, 3})
		}
		for _, st := range bstreams {
			for _, tp := range [][]string{{"O"}, {"M", "F"}, {"M"}} {
				for _, cfg := range []aofCfg{
					{Txn: true, Resume: true, Pipeline: true, Count: 1, Bytes: 1 << 20, DbMode: "id"},
					{Txn: true, Resume: true, Pipeline: true, Count: 2, Bytes: 1 << 20, DbMode: "id"},
					{Txn: false, Resume: true, Pipeline: true, Count: 1, Bytes: 1 << 20, DbMode: "id"},
				} {
					idx++
					if idx%nshards != shard || budget.Expired() || (fam != "" && fam != "burst") {
						continue
					}
					scn := c19Scenario{Keys: st, Cfg: cfg, Topo: tp, SameNode: cfg.Txn, Burst: true}
					mc.RunScenario(rep, scn, bb, budget, func(ch *mc.Chooser) mc.Result { return exec(scn, ch) })
				}
			}
		}
	}
	// ---- family "long": one flush carrying far more commands for one node than any constant in the
	// client (per-node batch sizes, pipeline in-flight window of 64): 140 writes to two keys of one
	// slot, batch size 200; the explorer still chooses which connection's next request the node
	// processes, so a batch split over several connections shows as a per-key inversion
	{
		long := make([]int, 140)
		for i := range long {
			long[i] = i % 2 // a{t}, b{t}
		}
		for _, cfg := range []aofCfg{
			{Txn: false, Resume: true, Pipeline: false, Count: 200, Bytes: 1 << 20, DbMode: "id"},
			{Txn: false, Resume: true, Pipeline: true, Count: 200, Bytes: 1 << 20, DbMode: "id"},
			{Txn: false, Resume: true, Pipeline: true, Count: 70, Bytes: 1 << 20, DbMode: "id"},
		} {
			idx++
			if idx%nshards != shard || budget.Expired() || fam != "" {
				continue
			}
			scn := c19Scenario{Keys: long, Cfg: cfg}
			mc.RunScenario(rep, scn, 1, budget, func(ch *mc.Chooser) mc.Result { return exec(scn, ch) })
		}
	}
	// ---- preemption family: default request order, migrations already in place when the replay
	// starts; every wake-up statement of the cluster client (batch.go, batch_pipe.go,
	// node_pipeline.go) and of syncer/output.go reached is a point at which the running goroutine
	// may be held back until all others block
	pbound := 1
	pstreams := [][]int{{0, 2, 0}, {0, 0, 2}}
	pinits := [][]string{{"M"}, {"M", "Mw"}, nil}
	if tier == "thorough" {
		pbound = 2
		pstreams = append(pstreams, []int{2, 0, 1, 0})
	}
	for _, st := range pstreams {
		for _, in := range pinits {
			for _, cfg := range cfgs {
				keys := st
				if cfg.Txn {
					// transactional mode: everything on node 0 (two slots), consecutive transaction batches share
					// one node pipeline
					if !cfg.Pipeline || len(in) > 1 {
						continue
					}
					keys = make([]int, len(st))
					for i, k := range st {
						if k == 2 {
							k = 3
						}
						keys[i] = k
					}
				}
				idx++
				if idx%nshards != shard || budget.Expired() || (fam != "" && fam != "preempt") {
					continue
				}
				scn := c19Scenario{Keys: keys, Cfg: cfg, Init: in, Preempt: true, SameNode: cfg.Txn}
				rep.Scenario()
				explorePreempt(rep, budget, pbound, func(plan []string, res mc.Result) {
					sc := scn
					sc.Plan = plan
					rep.Exec(sc, nil, res)
				}, func(plan []string) (mc.Result, []string, []string) {
					sc := scn
					sc.Plan = plan
					r := exec(sc, mc.NewChooser(nil))
					return r, lastSeen, lastHit
				})
			}
		}
	}
	if budget.Expired() {
		rep.Capped("deadline reached before all scenarios were explored")
	}
}

//go:debug asynctimerchan=0
package store

import (
	"fmt"
	"io"
	"os"
	"runtime"
	"runtime/debug"
	"sort"
	"strings"
	"sync"
	"syscall"
	"testing"
	"testing/synctest"
	"time"

	"github.com/mgtv-tech/redis-GunYu/config"
	"github.com/mgtv-tech/redis-GunYu/pkg/log"
	"github.com/mgtv-tech/redis-GunYu/verifshim/mc"
)

var verifLogOnce sync.Once

func verifInitLog() {
	verifLogOnce.Do(func() {
		f := false
		lvl := os.Getenv("VERIF_LOGLEVEL")
		if lvl == "" {
			lvl = "fatal"
		}
		if err := log.InitLog(config.LogConfig{LevelStr: lvl, Handler: config.LogHandlerConfig{StdOut: true}, Caller: &f, Func: &f}); err != nil {
			panic(err)
		}
	})
}

// TestVerif dispatches on VERIF_CHECK (one test binary serves every check whose
// harness lives in package store).
func TestVerif(t *testing.T) {
	check := os.Getenv("VERIF_CHECK")
	if check == "" {
		t.Skip("VERIF_CHECK not set")
	}
	verifInitLog()
	rep, err := mc.NewReporter(check)
	if err != nil {
		t.Fatal(err)
	}
	defer rep.Close(nil)
	h, ok := verifChecks[check]
	if !ok {
		rep.Machinery("unknown check "+check, nil)
		return
	}
	h(t, rep)
}

var verifChecks = map[string]func(t *testing.T, rep *mc.Reporter){}

// bubble runs f inside a fresh synctest bubble and converts panics (including the
// bubble's own deadlock panic when goroutines are left blocked) into a string.
func bubble(t *testing.T, f func()) (panicMsg string) {
	defer func() {
		if r := recover(); r != nil {
			panicMsg = fmt.Sprintf("%v", r)
		}
	}()
	synctest.Test(t, func(t *testing.T) {
		defer func() {
			if r := recover(); r != nil {
				panicMsg = fmt.Sprintf("panic in harness: %v\n%s", r, debug.Stack())
			}
		}()
		f()
	})
	return
}

// gate is an io.Reader whose bytes are released by the harness.
type gate struct {
	mu   sync.Mutex
	cond *sync.Cond
	buf  []byte
	err  error
}

func newGate() *gate {
	g := &gate{}
	g.cond = sync.NewCond(&g.mu)
	return g
}

func (g *gate) Read(p []byte) (int, error) {
	g.mu.Lock()
	defer g.mu.Unlock()
	for len(g.buf) == 0 && g.err == nil {
		g.cond.Wait()
	}
	if len(g.buf) > 0 {
		n := copy(p, g.buf)
		g.buf = g.buf[n:]
		return n, nil
	}
	return 0, g.err
}

func (g *gate) Release(b []byte) {
	g.mu.Lock()
	g.buf = append(g.buf, b...)
	g.cond.Broadcast()
	g.mu.Unlock()
}

func (g *gate) Close(err error) {
	g.mu.Lock()
	if g.err == nil {
		if err == nil {
			err = io.EOF
		}
		g.err = err
	}
	g.cond.Broadcast()
	g.mu.Unlock()
}

// ---------------------------------------------------------------------------
// real-time pacing and wedge detection (see harness/syncer/c05_test.go for the rationale)

func wallNow() int64 {
	var tv syscall.Timeval
	syscall.Gettimeofday(&tv)
	return tv.Sec*1e6 + int64(tv.Usec)
}

var verifPulse = make(chan struct{}) // fed in real time from outside every bubble

var verifNever = make(chan struct{})

func init() {
	go func() {
		for {
			time.Sleep(50 * time.Microsecond)
			select {
			case verifPulse <- struct{}{}:
			default:
			}
		}
	}()
}

var verifStackBuf []byte

// bubbleBlocked inspects the goroutines of the calling goroutine's bubble: are all the
// others blocked, and which of them are blocked on a mutex (their repo frames)?
func bubbleBlocked() (all bool, mutexBlocked []string) {
	if verifStackBuf == nil {
		verifStackBuf = make([]byte, 4<<20)
	}
	buf := verifStackBuf[:runtime.Stack(verifStackBuf, true)]
	blocks := strings.Split(string(buf), "\n\n")
	tag := ""
	if i := strings.Index(blocks[0], "synctest bubble "); i >= 0 {
		tag = blocks[0][i:]
		if j := strings.IndexAny(tag, "],"); j >= 0 {
			tag = tag[:j]
		}
	}
	if tag == "" {
		return false, nil
	}
	all = true
	for _, b := range blocks[1:] {
		nl := strings.Index(b, "\n")
		if nl < 0 {
			continue
		}
		hdr := b[:nl]
		lb := strings.Index(hdr, "[")
		if lb < 0 || !strings.Contains(hdr, tag+"]") && !strings.Contains(hdr, tag+",") {
			continue
		}
		st := hdr[lb+1:]
		switch {
		case strings.HasPrefix(st, "sync.Mutex.Lock"), strings.HasPrefix(st, "sync.RWMutex.RLock"), strings.HasPrefix(st, "sync.RWMutex.Lock"), strings.HasPrefix(st, "semacquire"):
			var frames []string
			for _, ln := range strings.Split(b[nl+1:], "\n") {
				if strings.HasPrefix(ln, "\t") || !strings.Contains(ln, "redis-GunYu/") || strings.Contains(ln, "verif") {
					continue
				}
				fn := ln
				if k := strings.Index(fn, "redis-GunYu/"); k >= 0 {
					fn = fn[k+len("redis-GunYu/"):]
				}
				if k := strings.LastIndex(fn, "("); k > 0 {
					fn = fn[:k]
				}
				frames = append(frames, fn)
				if len(frames) == 8 {
					break
				}
			}
			mutexBlocked = append(mutexBlocked, strings.Join(frames, " <- "))
		case strings.HasPrefix(st, "chan receive"), strings.HasPrefix(st, "chan send"), strings.HasPrefix(st, "select"), strings.HasPrefix(st, "sync.Cond.Wait"),
			strings.HasPrefix(st, "sync.WaitGroup.Wait"), strings.HasPrefix(st, "sleep"), strings.HasPrefix(st, "synctest"):
		default:
			all = false
		}
	}
	sort.Strings(mutexBlocked)
	return
}

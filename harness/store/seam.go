package store

// Verification seam (overlaid as pkg/store/zz_verif_seam.go at build time; never part of
// the repository). One-line forwarders and read-only accessors only - no copies of logic.

import (
	"fmt"
	"sort"
	"strings"
)

// VerifGC runs one pass of the size-triggered collector (normally driven by the 30 s ticker).
func (s *Storer) VerifGC() { s.gcLog() }

// VerifState renders the in-memory index of the cache (segments, sizes, reference
// counts) as a canonical string. Read-only; used as part of the explorer's state key.
func (s *Storer) VerifState() string {
	ds := s.getDataSet()
	if ds == nil {
		return "nil"
	}
	ds.mux.RLock()
	defer ds.mux.RUnlock()
	var sb strings.Builder
	if ds.rdb != nil {
		fmt.Fprintf(&sb, "rdb(%d,%d,ref%d)", ds.rdb.left, ds.rdb.rdbSize, ds.rdb.rwRef.Load())
	}
	for _, a := range ds.aofSegs {
		fmt.Fprintf(&sb, "[%d+%d/%d ref%d]", a.left, a.rtSize.Load(), a.size, a.rwRef.Load())
	}
	keys := make([]int64, 0, len(ds.aofMap))
	for k := range ds.aofMap {
		keys = append(keys, k)
	}
	sort.Slice(keys, func(i, j int) bool { return keys[i] < keys[j] })
	fmt.Fprintf(&sb, "map%v last%d", keys, ds.lastAofSeg.Load())
	return sb.String()
}

// VerifSegBounds lists the left offsets of the indexed segments (read-only).
func (s *Storer) VerifSegBounds() []int64 {
	ds := s.getDataSet()
	if ds == nil {
		return nil
	}
	ds.mux.RLock()
	defer ds.mux.RUnlock()
	var out []int64
	for _, a := range ds.aofSegs {
		out = append(out, a.left)
	}
	return out
}

// VerifAofClosed reports whether the segment reader behind r has been closed (by the
// caller, by a reset or by its own failure). Read-only.
func (r *Reader) VerifAofClosed() bool {
	return r.aof == nil || r.aof.wait.IsClosed()
}

// VerifSetReadBufSize sets the size of the pipe/bufio buffers handed to new readers
// (1 MiB by default; a buffer size, not logic - small values keep the explorer's
// allocation rate down).
func (s *Storer) VerifSetReadBufSize(n int) { s.readBufSize = n }

package store

// C08 - "after an unclean stop the disk cache serves only bytes it truly holds".
//
// pkg/store is built with os -> vos: every mutating file-system call of a write history
// is logged. A crash (process death) at any instant leaves the directory image of a
// PREFIX of that log, the write in flight cut at any byte. Every such image is rebuilt in
// a fresh directory, a new Storer is opened on it, the run id selected and everything it
// offers is read back and compared with the source bytes. Second family: every
// single-byte alteration of a cleanly closed segment / snapshot, read back with checksum
// verification enabled.

import (
	"context"
	"encoding/binary"
	"encoding/json"
	"errors"
	"fmt"
	"os"
	"path/filepath"
	"runtime"
	"sort"
	"strings"
	"sync"
	"testing"
	"testing/synctest"

	"github.com/mgtv-tech/redis-GunYu/config"
	"github.com/mgtv-tech/redis-GunYu/pkg/common"
	"github.com/mgtv-tech/redis-GunYu/pkg/digest"
	usync "github.com/mgtv-tech/redis-GunYu/pkg/sync"
	"github.com/mgtv-tech/redis-GunYu/verifshim/mc"
	"github.com/mgtv-tech/redis-GunYu/verifshim/ref"
	"github.com/mgtv-tech/redis-GunYu/verifshim/vos"
	"github.com/mgtv-tech/redis-GunYu/verifshim/vpoll"
)

func init() { verifChecks["C08"] = runC08 }

const (
	c08Settle   = 3
	c08Horizon  = 40
)

// geometry of the history being recorded / checked (set by c08Geom): unit 1 = 8 data bytes
// per segment, snapshot 40 B; unit 1100 (Big) = 8800 data bytes per segment, appends of
// 9900 B, snapshot 11000 B - every file spans several 4 KiB / 8 KiB buffers of the
// writers, readers and checksum loops.
var (
	c08U        = int64(1)
	c08LogSize  = int64(24) // 16-byte header + 8 data bytes, then rotation
	c08SnapSize = int64(40)
	c08GcMax    = int64(12)
)

func c08Geom(h c08Hist) {
	c08Foot = h.Foot
	c08U = 1
	c08SnapSize = 40
	if h.Big {
		c08U = 1100
		c08SnapSize = 11000
	}
	c08LogSize = 16 + 8*c08U
	c08GcMax = 12 * c08U
}

type c08Hist struct {
	Snap string `json:"snap"` // full | none | fail (source ends after 25 of 40 bytes)
	App  string `json:"app"`  // a: 9,9,3   b: 5,4,9,1   c: 20,2
	GC   bool   `json:"gc"`   // one collector pass after the appends
	Tail string `json:"tail"` // none | close | more | rename | delnew | resnap
	Big  bool   `json:"big,omitempty"` // large files (see c08Geom)
	// Snap == "part": the snapshot reception is given up by its OWNER after K received bytes:
	// End = close (Close()) | cancel (context cancelled, Wait, Close()) | reset (a new snapshot
	// writer replaces it: dataSetRdb.Close) | del (DelRunId: dataSetRdb.Close); then a segment
	// writer and one rotating append. Only instants from the ending on are frozen.
	Foot string `json:"foot,omitempty"` // last 8 snapshot bytes: "" matching CRC-64 | "zero" | "bad"
	End  string `json:"end,omitempty"`
	K   int64  `json:"k,omitempty"`
	Base int64  `json:"base"` // first offset: 95 (names 95,104,113 cross the 2->3 digit boundary: lexical != numeric order) | 100
}

func (h c08Hist) String() string {
	s := fmt.Sprintf("snap=%s,app=%s,gc=%v,tail=%s,base=%d", h.Snap, h.App, h.GC, h.Tail, h.Base)
	if h.Snap == "part" {
		s += fmt.Sprintf(",end=%s,k=%d", h.End, h.K)
	}
	if h.Foot != "" {
		s += ",foot=" + h.Foot
	}
	if h.Big {
		s += ",big"
	}
	return s
}

type c08Scenario struct {
	Hist   c08Hist `json:"hist"`
	Family string  `json:"family"` // "crash" | "crash-crc" | "alter" | "clean-crc"
	N      int     `json:"n"`      // crash: log prefix length
	Cut    int     `json:"cut"`    // crash: bytes of log[n] applied (-1 = none)
	File   string  `json:"file"`   // alter: file (relative)
	Pos    int     `json:"pos"`    // alter: byte position
	Xor    int     `json:"xor"`    // alter: xor mask (0 with Grow != 0)
	Grow   int     `json:"grow,omitempty"` // alter: change the file length by this many bytes instead (-1, -8, +1)
	// family "dir" (directory-level faults on the final image): the files whose bit is set in
	// Mask (names sorted) are missing; with MvSnap the snapshot file is renamed to offset SnapTo
	Mask   int   `json:"mask,omitempty"`
	MvSnap bool  `json:"mv_snap,omitempty"`
	SnapTo int64 `json:"snap_to,omitempty"`
}

func c08AofByte(hist int, off int64) byte { return byte(41*(2*(hist%3)) + int(off%41)) }

func c08AofBytes(hist int, from, n int64) []byte {
	b := make([]byte, n)
	for i := int64(0); i < n; i++ {
		b[i] = c08AofByte(hist, from+i)
	}
	return b
}

// snapshot bytes: 32 data bytes + CRC-64/Jones of them (little endian), so that a
// verifying reader accepts the unaltered file.
func c08SnapBytes(hist int) []byte {
	b := make([]byte, c08SnapSize)
	for i := int64(0); i < c08SnapSize-8; i++ {
		b[i] = byte(41*(2*(hist%3)+1) + int(i%41))
	}
	switch c08Foot {
	case "zero": // source running with rdbchecksum no
		binary.LittleEndian.PutUint64(b[c08SnapSize-8:], 0)
	case "bad":
		binary.LittleEndian.PutUint64(b[c08SnapSize-8:], ref.RDBCRC64(0, b[:c08SnapSize-8])^0x5a5a)
	default:
		binary.LittleEndian.PutUint64(b[c08SnapSize-8:], ref.RDBCRC64(0, b[:c08SnapSize-8]))
	}
	return b
}

var c08Foot string // trailer shape of the history being recorded / checked (c08Geom)

// ---------------------------------------------------------------------------
// recording a history

type c08Recorded struct {
	log      []vos.Op
	idHist   map[string]int   // run id -> history whose bytes its directory holds
	maxRight map[string]int64 // run id -> one past the highest offset fed
	minLeft  map[string]int64
	from     int // first log position whose crash images are enumerated
	err      string
}

type c08W struct {
	g    *gate
	done bool
	mu   sync.Mutex
}

func c08Record(t *testing.T, h c08Hist, root string) c08Recorded {
	rec := c08Recorded{idHist: map[string]int{"runA": 0}, maxRight: map[string]int64{}, minLeft: map[string]int64{}}
	c08Base := h.Base
	c08Geom(h)
	msg := bubble(t, func() {
		vpoll.Reset(true)
		os.MkdirAll(root, 0o777)
		vos.StartLog(root)
		st := NewStorer("c08", root, c08GcMax, c08LogSize, config.FlushPolicy{})
		defer st.Close()
		fail := func(f string, a ...interface{}) {
			if rec.err == "" {
				rec.err = fmt.Sprintf(f, a...)
			}
		}
		var gates []*gate
		var closers []func() error
		cleanup := func() {
			for _, g := range gates {
				g.Close(nil)
			}
			for _, c := range closers {
				c()
			}
			synctest.Wait()
		}
		if err := st.SetRunId("runA"); err != nil {
			fail("SetRunId: %v", err)
			return
		}
		id, hist := "runA", 0
		right := c08Base
		rec.minLeft[id] = c08Base
		snapshot := func(left int64, complete bool) bool {
			g := newGate()
			gates = append(gates, g)
			w, err := st.GetRdbWriter(g, left, c08SnapSize)
			if err != nil {
				fail("GetRdbWriter: %v", err)
				return false
			}
			closers = append(closers, w.Close)
			w.Start()
			sb := c08SnapBytes(hist)
			cutAt := c08SnapSize * 5 / 8
			g.Release(sb[:cutAt])
			synctest.Wait()
			if complete {
				g.Release(sb[cutAt:])
			} else {
				g.Close(nil)
			}
			synctest.Wait()
			w.Close()
			synctest.Wait()
			right = left
			return true
		}
		var curGate *gate
		newAof := func(off int64) bool {
			g := newGate()
			gates = append(gates, g)
			w, err := st.GetAofWritter(g, off)
			if err != nil {
				fail("GetAofWritter: %v", err)
				return false
			}
			closers = append(closers, w.Close)
			w.Start()
			synctest.Wait()
			curGate = g
			return true
		}
		app := func(n int64) {
			curGate.Release(c08AofBytes(hist, right, n))
			right += n
			if right > rec.maxRight[id] {
				rec.maxRight[id] = right
			}
			synctest.Wait()
		}
		if h.Snap == "part" {
			// owner-side ending of a snapshot reception after K bytes
			g := newGate()
			gates = append(gates, g)
			w, err := st.GetRdbWriter(g, c08Base, c08SnapSize)
			if err != nil {
				fail("GetRdbWriter: %v", err)
				cleanup()
				return
			}
			closers = append(closers, w.Close)
			w.Start()
			if h.K > 0 {
				g.Release(c08SnapBytes(hist)[:h.K])
			}
			synctest.Wait()
			rec.from = vos.Len()
			ok := true
			switch h.End {
			case "close":
				w.Close()
			case "cancel":
				ctx, cancel := context.WithCancel(context.Background())
				cancel()
				if werr := w.Wait(ctx); werr != nil {
					fail("Wait on a cancelled context answered %v", werr)
				}
				w.Close()
			case "reset":
				ok = snapshot(c08Base, true)
			case "del":
				if err := st.DelRunId("runA"); err != nil {
					fail("DelRunId: %v", err)
					ok = false
				} else if err := st.SetRunId("runA"); err != nil {
					fail("SetRunId: %v", err)
					ok = false
				}
			}
			synctest.Wait()
			if ok && newAof(c08Base) {
				app(9 * c08U)
			}
			rec.log = vos.StopLog()
			cleanup()
			return
		}
		if h.Snap != "none" && !snapshot(c08Base, h.Snap == "full") {
			cleanup()
			return
		}
		if !newAof(c08Base) {
			cleanup()
			return
		}
		var chunks []int64
		switch h.App {
		case "a":
			chunks = []int64{9, 9, 3}
		case "b":
			chunks = []int64{5, 4, 9, 1}
		case "d": // one non-empty segment (still being written)
			chunks = []int64{5}
		case "e": // no append at all: the snapshot and one EMPTY segment
			chunks = nil
		default: // "c": rotated exactly once, two non-empty segments
			chunks = []int64{20, 2}
		}
		for _, n := range chunks {
			app(n * c08U)
		}
		if h.GC {
			st.VerifGC()
			synctest.Wait()
		}
		switch h.Tail {
		case "none":
		case "close":
			curGate.Close(nil)
			synctest.Wait()
		case "more":
			app(9 * c08U)
		case "rename":
			curGate.Close(nil)
			synctest.Wait()
			if err := st.SetRunId("runB"); err != nil {
				fail("SetRunId(runB): %v", err)
				break
			}
			id = "runB"
			rec.idHist[id] = hist
			rec.minLeft[id] = c08Base
			rec.maxRight[id] = right
			if newAof(right) {
				app(9 * c08U)
			}
		case "delnew":
			if err := st.DelRunId("runA"); err != nil {
				fail("DelRunId: %v", err)
				break
			}
			synctest.Wait()
			if err := st.SetRunId("runB"); err != nil {
				fail("SetRunId(runB): %v", err)
				break
			}
			id, hist = "runB", 1
			rec.idHist[id] = hist
			rec.minLeft[id] = c08Base
			if snapshot(c08Base, true) && newAof(c08Base) {
				app(9 * c08U)
			}
		case "resnap":
			if snapshot(c08Base, true) && newAof(c08Base) {
				app(9 * c08U)
			}
		}
		rec.log = vos.StopLog()
		cleanup()
	})
	vos.StopLog()
	if msg != "" && rec.err == "" {
		rec.err = "bubble: " + msg
	}
	return rec
}

// ---------------------------------------------------------------------------
// reading an image back

type c08Rd struct {
	rd     *Reader
	wait   usync.WaitCloser
	mu     sync.Mutex
	got    []byte
	ended  bool
	exited bool
}

func (r *c08Rd) n() (int, bool) {
	r.mu.Lock()
	defer r.mu.Unlock()
	return len(r.got), r.ended
}

type c08Check struct {
	t        *testing.T
	dir      string
	verify   bool // checksum verification on (alteration family)
	lenient  bool // refusal / short service is an accepted outcome (altered image)
	focus    string // "" = read everything | "rdb" = only the snapshot | "aof" = only the segments
	viol     *mc.Result
	wedged   func(mc.Result)
	offered  int64 // bytes offered (non-triviality)
	served   int64
	refused  int
	detail   map[string]interface{}
	sigShape string
}

func (c *c08Check) fail(clause, kind string, d map[string]interface{}) {
	if c.viol != nil {
		return
	}
	if d == nil {
		d = map[string]interface{}{}
	}
	for k, v := range c.detail {
		d[k] = v
	}
	v := mc.Violation(clause, fmt.Sprintf("C08:%s:%s", kind, c.sigShape), d)
	c.viol = &v
}

func (c *c08Check) settle() {
	synctest.Wait()
	for i := 0; i < c08Settle; i++ {
		vpoll.Tick()
		synctest.Wait()
	}
}

func (c *c08Check) waitUntil(cond func() bool) bool {
	synctest.Wait()
	if cond() {
		return true
	}
	for i := 0; i < c08Horizon; i++ {
		vpoll.Tick()
		synctest.Wait()
		if cond() {
			return true
		}
	}
	return false
}

// spinUntil: see (*c05Env).spinUntil in harness/syncer/c05_test.go.
func (c *c08Check) spinUntil(cond func() bool) {
	blockedRounds := 0
	var lastSample int64
	for round := 1; ; round++ {
		if cond() {
			return
		}
		if round < 3000 {
			runtime.Gosched()
			continue
		}
		<-verifPulse
		if cond() {
			return
		}
		if vpoll.Parked() > 0 {
			vpoll.Tick()
		}
		now := wallNow()
		if lastSample == 0 {
			lastSample = now
		}
		if now-lastSample < 4000 {
			continue
		}
		lastSample = now
		all, mtx := bubbleBlocked()
		if all && len(mtx) > 0 {
			blockedRounds++
		} else {
			blockedRounds = 0
		}
		if blockedRounds >= 4 {
			if cond() {
				return
			}
			cls := "other"
			joined := strings.Join(mtx, " | ")
			switch {
			case strings.Contains(joined, "isCorrupted"):
				cls = "verify-crc"
			case strings.Contains(joined, "dataSetRdb).Del"):
				cls = "rdb-close"
			}
			c.sigShape = cls
			c.fail("opening or closing a reader never returns: every goroutine of the cache is blocked, at least one on a lock that can no longer be released (dead-lock)",
				"deadlock", map[string]interface{}{"blocked_on_lock": mtx})
			c.wedged(*c.viol)
		}
	}
}

func (c *c08Check) call(f func()) {
	done := make(chan struct{})
	go func() {
		defer close(done)
		f()
	}()
	c.spinUntil(func() bool {
		select {
		case <-done:
			return true
		default:
			return false
		}
	})
}

func (c *c08Check) open(st *Storer, x int64) (*c08Rd, error) {
	var rd *Reader
	var err error
	c.call(func() { rd, err = st.GetReader(x, c.verify) })
	if err != nil {
		return nil, err
	}
	r := &c08Rd{rd: rd, wait: usync.NewWaitCloser(nil)}
	rd.Start(r.wait)
	br := rd.IoReader()
	go func() {
		buf := make([]byte, 256)
		for {
			n, err := br.Read(buf)
			r.mu.Lock()
			if n > 0 {
				r.got = append(r.got, buf[:n]...)
			}
			if err != nil {
				r.ended = true
				r.mu.Unlock()
				return
			}
			r.mu.Unlock()
		}
	}()
	go func() {
		r.wait.WgWait()
		r.mu.Lock()
		r.exited = true
		r.mu.Unlock()
	}()
	return r, nil
}

func (c *c08Check) close(r *c08Rd) {
	r.wait.Close(nil)
	r.rd.Close()
	c.spinUntil(func() bool {
		r.mu.Lock()
		defer r.mu.Unlock()
		return r.exited
	})
}

// readRun reads [x, upto) through a segment reader and compares with the source.
func (c *c08Check) readRun(st *Storer, id string, hist int, x, upto int64) {
	if c.viol != nil {
		return
	}
	r, err := c.open(st, x)
	if err != nil {
		if c.lenient {
			c.refused++
			return
		}
		c.fail("an offset inside the reported range cannot be opened", "range-unreadable", map[string]interface{}{"run_id": id, "offset": x, "error": err.Error()})
		return
	}
	if !r.rd.IsAof() {
		c.close(r)
		c.fail("an offset inside the reported segment range is answered with the snapshot", "range-unreadable", map[string]interface{}{"run_id": id, "offset": x})
		return
	}
	want := int(upto - x)
	ok := c.waitUntil(func() bool { n, ended := r.n(); return n >= want || ended })
	n, ended := r.n()
	r.mu.Lock()
	got := append([]byte(nil), r.got...)
	r.mu.Unlock()
	werr := r.wait.Error()
	c.close(r)
	for i := 0; i < len(got); i++ {
		off := x + int64(i)
		if off >= upto {
			c.fail("a reader served bytes beyond the reported range", "beyond-range", map[string]interface{}{"run_id": id, "reader_start": x, "served": len(got), "reported_right": upto})
			return
		}
		if w := c08AofByte(hist, off); got[i] != w {
			kind := "wrong-byte"
			if c.lenient {
				kind = "altered-byte-served"
			}
			c.fail("a byte served from the cache is not the byte the source sent at that offset", kind, map[string]interface{}{"run_id": id, "reader_start": x, "at": off, "got": got[i], "want": w})
			return
		}
	}
	c.served += int64(len(got))
	if werr != nil && strings.Contains(werr.Error(), "panic") {
		c.fail("a reader panicked", "panic", map[string]interface{}{"run_id": id, "reader_start": x, "error": werr.Error()})
		return
	}
	if n < want {
		if c.lenient {
			c.refused++
			return
		}
		_ = ok
		es := ""
		if werr != nil {
			es = werr.Error()
		}
		c.fail("bytes inside the reported range are not served (the range is not one contiguous run of bytes the cache holds)", "range-not-served",
			map[string]interface{}{"run_id": id, "reader_start": x, "served": n, "reported_right": upto, "ended": ended, "reader_error": es})
	}
}

func (c *c08Check) readSnap(st *Storer, id string, hist int, left, size int64) {
	if c.viol != nil {
		return
	}
	r, err := c.open(st, left-1)
	if err != nil {
		if c.lenient {
			c.refused++
			return
		}
		c.fail("a snapshot is offered but cannot be opened", "rdb-offered-unreadable", map[string]interface{}{"run_id": id, "rdb": []int64{left, size}, "error": err.Error()})
		return
	}
	if r.rd.IsAof() {
		c.close(r)
		c.fail("a snapshot is offered but the offset before it is answered from a segment", "rdb-offered-unreadable", map[string]interface{}{"run_id": id, "rdb": []int64{left, size}})
		return
	}
	c.waitUntil(func() bool { n, ended := r.n(); return int64(n) >= size || ended })
	r.mu.Lock()
	got := append([]byte(nil), r.got...)
	r.mu.Unlock()
	werr := r.wait.Error()
	c.close(r)
	want := c08SnapBytes(hist)
	for i := range got {
		if i >= len(want) || got[i] != want[i] {
			kind := "rdb-wrong-byte"
			if c.lenient {
				kind = "altered-byte-served"
			}
			c.fail("a snapshot byte served from the cache is not the byte the source sent", kind, map[string]interface{}{"run_id": id, "at": i, "got": got[i]})
			return
		}
	}
	c.served += int64(len(got))
	if int64(len(got)) < size {
		if c.lenient && werr != nil {
			c.refused++ // handed out, then failed with an error: a refusal
			return
		}
		if c.lenient {
			// a stored snapshot (renamed = complete) was handed out after the verification at open and
			// then neither delivered nor failed: the reader polls for ever
			c.fail("a stored snapshot is handed out but neither delivered completely nor failed", "rdb-handed-out-not-delivered", map[string]interface{}{"run_id": id, "rdb": []int64{left, size}, "served": len(got)})
			return
		}
		c.fail("a snapshot that is not completely present is offered for replay", "rdb-incomplete-offered", map[string]interface{}{"run_id": id, "rdb": []int64{left, size}, "served": len(got)})
	}
}

// checkID opens the image for one run id and reads back everything it offers.
func (c *c08Check) checkID(id string, hist int, minLeft, maxRight int64) {
	st := NewStorer("c08r", c.dir, 1<<20, c08LogSize, config.FlushPolicy{})
	defer st.Close()
	st.VerifSetReadBufSize(8192)
	var err error
	c.call(func() { err = st.SetRunId(id) })
	if err != nil {
		c.fail("the cache cannot be reopened", "reopen-error", map[string]interface{}{"run_id": id, "error": err.Error()})
		return
	}
	l, r := st.GetOffsetRange()
	rl, rs := st.GetRdb()
	c.detail["reported_"+id] = fmt.Sprintf("range=[%d,%d] rdb=(%d,%d) index=%s", l, r, rl, rs, st.VerifState())
	if (l < 0) != (r < 0) || l > r {
		c.fail("the reported range is not a range", "range-shape", nil)
		return
	}
	snapOnly := rl >= 0 && l == rl && r == rl && len(st.VerifSegBounds()) == 0 // a snapshot and no log: range (rdb.left, rdb.left)
	if !c.lenient && !snapOnly && (r > maxRight || (l >= 0 && l < minLeft)) { // (an altered file length shows in the range; what counts there is that nothing wrong is served)
		c.fail("the reported range exceeds the bytes the source sent", "beyond-source", map[string]interface{}{"run_id": id, "sent": []int64{minLeft, maxRight}})
		return
	}
	if rl >= 0 && c.focus != "aof" {
		c.offered += rs
		c.readSnap(st, id, hist, rl, rs)
	}
	if l < 0 || c.viol != nil || c.focus == "rdb" {
		return
	}
	// segment part of the range: [al, r]
	bounds := st.VerifSegBounds()
	if len(bounds) == 0 {
		return // snapshot only: range is (rdb.left, rdb.left)
	}
	if rl >= 0 && bounds[0] > rl {
		c.fail("the reported range spans offsets between the snapshot and the first segment that the cache does not hold (an older snapshot in front of a gap is kept)", "range-gap",
			map[string]interface{}{"run_id": id, "rdb_left": rl, "first_segment": bounds[0]})
		return
	}
	for x := l; x <= r; x++ {
		if !st.IsValidOffset(x) {
			c.fail("an offset inside the reported range is reported invalid", "range-gap", map[string]interface{}{"run_id": id, "offset": x})
			return
		}
	}
	c.offered += r - l
	starts := map[int64]bool{l: true}
	if r-l >= 2 {
		starts[l+1] = true
		starts[r-1] = true
	}
	for _, b := range bounds {
		if b >= l && b <= r {
			starts[b] = true
		}
	}
	var xs []int64
	for x := range starts {
		xs = append(xs, x)
	}
	sort.Slice(xs, func(i, j int) bool { return xs[i] < xs[j] })
	for _, x := range xs {
		if x < r {
			c.readRun(st, id, hist, x, r)
		}
	}
}

type c08Outcome struct {
	res    mc.Result
	wedged bool
}

var c08DirSeq int
var c08Root string

func c08ScratchRoot() string {
	if c08Root != "" {
		return c08Root
	}
	base := os.Getenv("VERIF_SCRATCH")
	if base == "" {
		base = os.TempDir()
	}
	if st, err := os.Stat("/dev/shm"); err == nil && st.IsDir() && os.Getenv("VERIF_NO_SHM") == "" {
		// MkdirTemp, not the pid: shard processes of concurrent runs may live in different
		// pid namespaces and share /dev/shm
		if cand, err := os.MkdirTemp("/dev/shm", "verif-c08-"); err == nil {
			c08Root = cand
			return c08Root
		}
	}
	if cand, err := os.MkdirTemp(base, "c08-"); err == nil {
		c08Root = cand
	} else {
		c08Root = filepath.Join(base, fmt.Sprintf("c08-%d", os.Getpid()))
		os.MkdirAll(c08Root, 0o777)
	}
	return c08Root
}

// c08CheckImage materialises the image and reads it back (one bubble).
func c08CheckImage(t *testing.T, im *vos.Image, rec c08Recorded, verify, lenient bool, shape string, extra map[string]interface{}) c08Outcome {
	focus := ""
	if shape == "altered-rdb" {
		focus = "rdb"
	} else if shape == "altered-aof" {
		focus = "aof"
	}
	c08DirSeq++
	dir := filepath.Join(c08ScratchRoot(), fmt.Sprintf("img%d", c08DirSeq))
	if err := im.Materialize(dir); err != nil {
		return c08Outcome{res: mc.Result{Verdict: "machinery", Clause: "materialize: " + err.Error()}}
	}
	resCh := make(chan c08Outcome, 2)
	go func() {
		var out c08Outcome
		msg := bubble(t, func() {
			vpoll.Reset(true)
			c := &c08Check{t: t, dir: dir, verify: verify, lenient: lenient, focus: focus, sigShape: shape, detail: map[string]interface{}{"image": im.Describe()}}
			for k, v := range extra {
				c.detail[k] = v
			}
			c.wedged = func(v mc.Result) {
				resCh <- c08Outcome{res: v, wedged: true}
				<-verifNever
			}
			ids := make([]string, 0, len(rec.idHist))
			for id := range rec.idHist {
				ids = append(ids, id)
			}
			sort.Strings(ids)
			for _, id := range ids {
				if fi, err := os.Stat(filepath.Join(dir, id)); err != nil || !fi.IsDir() {
					continue
				}
				if c.viol == nil {
					c.checkID(id, rec.idHist[id], rec.minLeft[id], rec.maxRight[id])
				}
			}
			// let pollers that were parked while their reader was closed see the close and leave
			synctest.Wait()
			for i := 0; i < 20 && vpoll.Parked() > 0; i++ {
				vpoll.Tick()
				synctest.Wait()
			}
			if c.viol != nil {
				out.res = *c.viol
				return
			}
			out.res = mc.OK(mc.Hash(im.Hash(), fmt.Sprint(verify, c.served, c.refused)), c.offered > 0, int(c.served))
		})
		if msg != "" {
			if len(msg) > 3000 {
				msg = msg[:3000]
			}
			out = c08Outcome{res: mc.Result{Verdict: "machinery", Clause: "bubble: " + msg}}
		}
		os.RemoveAll(dir)
		resCh <- out
	}()
	return <-resCh
}

// ---------------------------------------------------------------------------

func c08Histories(tier string) []c08Hist {
	var out []c08Hist
	apps := []string{"a", "b"}
	if tier == "thorough" {
		apps = []string{"a", "b", "c"}
	}
	snaps := []string{"full", "none"}
	if tier == "thorough" {
		snaps = []string{"full", "none", "fail"}
	}
	for _, snap := range snaps {
		for _, app := range apps {
			for _, gc := range []bool{false, true} {
				for _, tail := range []string{"none", "close", "more", "rename", "delnew", "resnap"} {
					if tier != "thorough" {
						// quick: 2*2*2*6 = 48 would be too many; keep the pairs that differ in shape
						if gc && (tail == "none" || tail == "delnew") {
							continue
						}
						if snap == "none" && app == "b" && tail != "close" && tail != "resnap" {
							continue
						}
					}
					out = append(out, c08Hist{Snap: snap, App: app, GC: gc, Tail: tail, Base: 95})
					if tier == "thorough" || (app == "a" && snap == "full") {
						out = append(out, c08Hist{Snap: snap, App: app, GC: gc, Tail: tail, Base: 100})
					}
					// first offset 0: names 0.aof / 0_40.rdb, every "0 = none" default is a real offset
					if (tier == "thorough" && app != "c") || (app == "a" && snap == "full" && !gc) || (app == "b" && snap == "none" && tail == "close") {
						out = append(out, c08Hist{Snap: snap, App: app, GC: gc, Tail: tail, Base: 0})
					}
				}
			}
		}
	}
	// logs that rotated exactly once (c), never (d) or hold one empty segment (e): images with a
	// snapshot and two / one / no non-empty segment, frozen inside the multi-file removals of a
	// reset (new snapshot, DelRunId) and a collector pass, and the directory-level family
	if tier != "thorough" {
		for _, app := range []string{"c", "d", "e"} {
			for _, base := range []int64{100, 95, 0} {
				for _, tail := range []string{"none", "close", "resnap", "delnew"} {
					if base != 100 && (tail == "resnap" || tail == "delnew") && app != "c" {
						continue
					}
					out = append(out, c08Hist{Snap: "full", App: app, GC: false, Tail: tail, Base: base})
				}
			}
			out = append(out, c08Hist{Snap: "full", App: app, GC: true, Tail: "more", Base: 100})
		}
	} else {
		for _, app := range []string{"d", "e"} {
			for _, base := range []int64{100, 95, 0} {
				for _, gc := range []bool{false, true} {
					for _, tail := range []string{"none", "close", "more", "rename", "delnew", "resnap"} {
						out = append(out, c08Hist{Snap: "full", App: app, GC: gc, Tail: tail, Base: base})
					}
				}
			}
		}
	}
	// owner-side endings of a snapshot reception at every received length k < size
	for _, end := range []string{"close", "cancel", "reset", "del"} {
		for k := int64(0); k < 40; k++ {
			if tier != "thorough" && (end == "cancel" || end == "del") && !(k == 0 || k == 1 || k == 20 || k == 39) {
				continue // quick: the Wait(ctx) and DelRunId variants at four lengths
			}
			base := int64(95)
			if k%3 == 1 {
				base = 0
			}
			out = append(out, c08Hist{Snap: "part", End: end, K: k, Tail: "none", App: "a", Base: base})
		}
	}
	// snapshot trailer shapes: all-zero (rdbchecksum no) and a wrong checksum
	for _, foot := range []string{"zero", "bad"} {
		out = append(out, c08Hist{Snap: "full", App: "a", GC: false, Tail: "close", Base: 95, Foot: foot})
		if tier == "thorough" {
			out = append(out, c08Hist{Snap: "full", App: "b", GC: true, Tail: "resnap", Base: 100, Foot: foot}, c08Hist{Snap: "full", App: "a", GC: false, Tail: "none", Base: 0, Foot: foot})
		}
	}
	// large files (segments 9900 B, snapshot 11000 B): crash family with sampled torn writes,
	// read with and without verification; alteration family on the clean-close history
	out = append(out, c08Hist{Snap: "full", App: "a", GC: false, Tail: "close", Base: 95, Big: true})
	if tier == "thorough" {
		out = append(out, c08Hist{Snap: "full", App: "a", GC: true, Tail: "resnap", Base: 0, Big: true}, c08Hist{Snap: "fail", App: "b", GC: false, Tail: "rename", Base: 100, Big: true})
	}
	if tier != "thorough" {
		out = append(out, c08Hist{Snap: "fail", App: "a", GC: false, Tail: "none", Base: 95}, c08Hist{Snap: "fail", App: "a", GC: false, Tail: "close", Base: 100},
			c08Hist{Snap: "fail", App: "b", GC: true, Tail: "rename", Base: 95})
	}
	return out
}

// shape: coarse, deterministic label of a crash point (signature component).
func c08Shape(log []vos.Op, n, cut int) string {
	if n >= len(log) {
		return "end"
	}
	o := log[n]
	pathOf := func(fid int) string {
		for i := n; i >= 0; i-- {
			if log[i].Kind == "create" && log[i].FID == fid {
				return log[i].Path
			}
		}
		return ""
	}
	ext := func(p string) string {
		switch {
		case strings.HasSuffix(p, ".rdb.tmp"):
			return "rdb.tmp"
		case strings.HasSuffix(p, ".rdb"):
			return "rdb"
		case strings.HasSuffix(p, ".aof"):
			return "aof"
		}
		return "dir"
	}
	switch o.Kind {
	case "write":
		s := "before-write-" + ext(pathOf(o.FID))
		if cut >= 0 {
			s = "mid-write-" + ext(pathOf(o.FID))
		}
		if o.Off == 0 && len(o.Data) == 16 {
			s += "-header"
		}
		return s
	case "create", "sync", "close":
		p := o.Path
		if p == "" {
			p = pathOf(o.FID)
		}
		return "before-" + o.Kind + "-" + ext(p)
	case "rename", "remove":
		return "before-" + o.Kind + "-" + ext(o.Path)
	}
	return "before-" + o.Kind
}

func runC08(t *testing.T, rep *mc.Reporter) {
	shard, nshards := mc.ShardOf()
	tier := mc.Tier()
	budget := &mc.Budget{Deadline: mc.DeadlineFromEnv()}
	defer func() { os.RemoveAll(c08ScratchRoot()) }()
	if config.GetSyncerConfig().Channel == nil {
		config.GetSyncerConfig().Channel = &config.ChannelConfig{}
	}
	// the snapshot trailer must be what the repository's own checksum computes
	d := digest.New()
	d.Write(c08SnapBytes(0)[:c08SnapSize-8])
	if d.Sum64() != binary.LittleEndian.Uint64(c08SnapBytes(0)[c08SnapSize-8:]) {
		rep.Machinery("reference CRC-64 differs from pkg/digest", nil)
		return
	}
	_ = errors.Is
	_ = common.ErrCorrupted

	record := func(h c08Hist) c08Recorded {
		c08DirSeq++
		root := filepath.Join(c08ScratchRoot(), fmt.Sprintf("rec%d", c08DirSeq))
		rec := c08Record(t, h, root)
		os.RemoveAll(root)
		return rec
	}

	execScn := func(scn c08Scenario, rec c08Recorded) c08Outcome {
		c08Geom(scn.Hist)
		switch scn.Family {
		case "crash", "crash-crc":
			im := vos.Build(rec.log, scn.N, scn.Cut)
			v := scn.Family == "crash-crc" // verification on: refusing (e.g. the unfinished newest segment) is fine, wrong bytes are not
			return c08CheckImage(t, im, rec, v, v, c08Shape(rec.log, scn.N, scn.Cut), map[string]interface{}{"crash_before": fmt.Sprint(opAt(rec.log, scn.N)), "cut": scn.Cut})
		case "clean-crc":
			im := vos.Build(rec.log, len(rec.log), -1)
			// a snapshot whose trailer is not a matching checksum may be refused at open
			return c08CheckImage(t, im, rec, true, scn.Hist.Foot != "", "clean-crc", nil)
		case "dir":
			im := vos.Build(rec.log, len(rec.log), -1)
			names := c08FileNames(im)
			var gone []string
			for i, p := range names {
				if scn.Mask&(1<<uint(i)) != 0 {
					im.Drop(p)
					gone = append(gone, p)
				}
			}
			shape := "files-missing"
			extra := map[string]interface{}{"missing": gone}
			if scn.MvSnap {
				shape = "snapshot-at-other-offset"
				for _, p := range names {
					if strings.HasSuffix(p, ".rdb") {
						to := fmt.Sprintf("%s/%d_%d.rdb", filepath.Dir(p), scn.SnapTo, c08SnapSize)
						im.Move(p, to)
						extra["snapshot_renamed"] = p + " -> " + to
					}
				}
			}
			return c08CheckImage(t, im, rec, false, false, shape, extra)
		default:
			im := vos.Build(rec.log, len(rec.log), -1)
			what := fmt.Sprintf("%s[%d]^%#x", scn.File, scn.Pos, scn.Xor)
			if scn.Grow != 0 {
				im.Resize(scn.File, scn.Grow)
				what = fmt.Sprintf("%s length%+d", scn.File, scn.Grow)
			} else {
				c08Alter(im, scn.File, scn.Pos, byte(scn.Xor))
			}
			kind := "aof"
			if strings.HasSuffix(scn.File, ".rdb") {
				kind = "rdb"
			}
			return c08CheckImage(t, im, rec, true, true, "altered-"+kind, map[string]interface{}{"altered": what})
		}
	}

	if rp, err := mc.LoadReplay(); err != nil {
		rep.Machinery("cannot load replay: "+err.Error(), nil)
		return
	} else if rp != nil {
		var scn c08Scenario
		if err := json.Unmarshal(rp.Scenario, &scn); err != nil {
			rep.Machinery("bad replay scenario: "+err.Error(), nil)
			return
		}
		rec := record(scn.Hist)
		if rec.err != "" {
			rep.Machinery("recording failed: "+rec.err, nil)
			return
		}
		o := execScn(scn, rec)
		rep.Exec(scn, nil, o.res)
		return
	}

	wedgedSeen := map[string]int{}
	idx := 0
	run := func(scn c08Scenario, rec c08Recorded) {
		idx++
		if idx%nshards != shard || budget.Expired() {
			return
		}
		if scn.Family != "crash" && !strings.HasSuffix(scn.File, ".rdb") && wedgedSeen["verify"] >= 2 {
			// checksum verification dead-locks on every open (confirmed twice in this shard):
			// further executions would only leak more wedged bubbles
			rep.Count("skipped_known_deadlock_shape", 1)
			return
		}
		o := execScn(scn, rec)
		if o.res.Verdict == "violation" {
			for k := 0; k < 2; k++ {
				o2 := execScn(scn, rec)
				if o2.res.Verdict != "violation" || o2.res.Sig != o.res.Sig {
					rep.Exec(scn, nil, mc.Result{Verdict: "machinery", Clause: fmt.Sprintf("violation not reproducible: first=%s now=%s/%s", o.res.Sig, o2.res.Verdict, o2.res.Sig), Detail: o.res.Detail})
					return
				}
			}
		}
		if o.wedged && scn.Family != "crash" {
			wedgedSeen["verify"]++
		}
		rep.Exec(scn, nil, o.res)
	}

	for _, h := range c08Histories(tier) {
		if budget.Expired() {
			break
		}
		rec := record(h)
		if rec.err != "" {
			rep.Machinery("recording history "+h.String()+" failed: "+rec.err, nil)
			return
		}
		rep.Scenario()
		// family 1: every crash image (deduplicated by content)
		seen := map[string]bool{}
		var images, dups int64
		try := func(n, cut int) {
			im := vos.Build(rec.log, n, cut)
			hsh := im.Hash()
			if seen[hsh] {
				dups++
				return
			}
			seen[hsh] = true
			images++
			run(c08Scenario{Hist: h, Family: "crash", N: n, Cut: cut}, rec)
			if tier == "thorough" || h.Big || (h == c08Hist{Snap: "full", App: "a", GC: false, Tail: "none", Base: 95}) ||
				(h.Snap == "part" && (h.K == 1 || h.K == 25 || h.K == c08SnapSize-1)) {
				run(c08Scenario{Hist: h, Family: "crash-crc", N: n, Cut: cut}, rec)
			}
		}
		for n := rec.from; n <= len(rec.log); n++ {
			try(n, -1)
			if n < len(rec.log) && rec.log[n].Kind == "write" {
				ln := len(rec.log[n].Data)
				for cut := 1; cut < ln; cut++ {
					if ln > 64 && !(cut <= 2 || cut >= ln-2 || cut == ln/2 || cut%4096 == 0 || cut%4096 == 1 || cut%4096 == 4095) {
						continue // large write: torn at its ends, in the middle and around 4 KiB boundaries
					}
					try(n, cut)
				}
			}
		}
		if shard == 0 {
			rep.Count("crash_points", int64(len(rec.log)+1))
			rep.Count("distinct_images", images)
			rep.Count("duplicate_images", dups)
		}
		// family 3: directory-level faults on the final image of small histories: every subset
		// of its files missing (an interrupted multi-file removal in ANY order, a lost file),
		// and the snapshot file at another offset than the first segment (before / inside /
		// at the end of / beyond the log). Same read-back oracle.
		if h.Snap == "full" && !h.GC && !h.Big && (h.Tail == "none" || h.Tail == "close") {
			final := vos.Build(rec.log, len(rec.log), -1)
			names := c08FileNames(final)
			if len(names) <= 6 {
				for mask := 1; mask < 1<<uint(len(names)); mask++ {
					run(c08Scenario{Hist: h, Family: "dir", Mask: mask}, rec)
				}
				hi := rec.maxRight["runA"]
				for _, to := range []int64{h.Base - 3, h.Base + 3, h.Base + 9*c08U, hi, hi + 5} {
					if to < 0 || to == h.Base {
						continue
					}
					for _, mask := range []int{0, 1} { // with all segments / without the first file
						run(c08Scenario{Hist: h, Family: "dir", Mask: mask, MvSnap: true, SnapTo: to}, rec)
					}
				}
			}
		}
		// family 2: alterations of cleanly closed files, verification on
		if h.Tail == "close" && h.Snap != "fail" && (tier == "thorough" || h.App == "a" || h.Big) {
			run(c08Scenario{Hist: h, Family: "clean-crc"}, rec)
			final := vos.Build(rec.log, len(rec.log), -1)
			files := final.Files()
			var names []string
			for p := range files {
				names = append(names, p)
			}
			sort.Strings(names)
			masks := []int{0x01, 0xff}
			if tier == "thorough" {
				masks = []int{0x01, 0x10, 0x80, 0xff}
			}
			for _, p := range names {
				ln := len(files[p])
				hdr := 0
				if strings.HasSuffix(p, ".aof") {
					hdr = 16
				}
				for pos := 0; pos < ln; pos++ {
					if ln > 256 {
						// large file: whole header, then the first, a middle and the last block
						// edge-wise (4 KiB and 8 KiB buffer boundaries of the data), and the trailer
						q := pos - hdr
						if !(pos < hdr+2 || pos >= ln-10 || q%4096 <= 1 || q%4096 == 4095 || q == (ln-hdr)/2) {
							continue
						}
					}
					for _, m := range masks {
						run(c08Scenario{Hist: h, Family: "alter", File: p, Pos: pos, Xor: m}, rec)
					}
				}
				// length alterations of a closed file: one byte / the trailer missing, one byte too many
				for _, g := range []int{-1, -8, 1} {
					run(c08Scenario{Hist: h, Family: "alter", File: p, Grow: g}, rec)
				}
			}
		}
	}
	if budget.Expired() {
		rep.Capped("deadline reached before all histories were enumerated")
	}
}

func opAt(log []vos.Op, n int) string {
	if n >= len(log) {
		return "<end of history>"
	}
	return log[n].String()
}

func c08FileNames(im *vos.Image) []string {
	var names []string
	for p := range im.Files() {
		names = append(names, p)
	}
	sort.Strings(names)
	return names
}

func c08Alter(im *vos.Image, file string, pos int, mask byte) {
	im.Alter(file, pos, mask)
}

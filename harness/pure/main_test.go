package hpure

import (
	"os"
	"testing"

	"github.com/mgtv-tech/redis-GunYu/verifshim/mc"
)

// pureChecks: checks registered by init() of the harness files that are part of the
// build (so that a check's harness_files need not list every other check's file).
var pureChecks = map[string]func(*mc.Reporter){}

// TestVerif dispatches on VERIF_CHECK.
func TestVerif(t *testing.T) {
	check := os.Getenv("VERIF_CHECK")
	rep, err := mc.NewReporter(check)
	if err != nil {
		t.Fatal(err)
	}
	defer rep.Close(nil)
	switch check {
	case "C11":
		runC11(rep)
	default:
		if fn, ok := pureChecks[check]; ok {
			fn(rep)
			return
		}
		rep.Machinery("unknown check "+check, nil)
	}
}

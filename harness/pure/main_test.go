package hpure

import (
	"os"
	"testing"

	"github.com/mgtv-tech/redis-GunYu/verifshim/mc"
)

// TestVerif dispatches on VERIF_CHECK.
func TestVerif(t *testing.T) {
	check := os.Getenv("VERIF_CHECK")
	rep, err := mc.NewReporter(check)
	if err != nil {
		t.Fatal(err)
	}
	defer rep.Close(nil)
	switch check {
	case "C11":
		runC11(rep)
	default:
		rep.Machinery("unknown check "+check, nil)
	}
}

package hpure

import (
	"fmt"
	"strings"

	"github.com/mgtv-tech/redis-GunYu/pkg/digest"
	"github.com/mgtv-tech/redis-GunYu/pkg/filter"
	"github.com/mgtv-tech/redis-GunYu/pkg/redis"
	"github.com/mgtv-tech/redis-GunYu/pkg/redis/checkpoint"
	cluster "github.com/mgtv-tech/redis-GunYu/pkg/redis/client/cluster"
	"github.com/mgtv-tech/redis-GunYu/pkg/util"
	"github.com/mgtv-tech/redis-GunYu/verifshim/mc"
	"github.com/mgtv-tech/redis-GunYu/verifshim/ref"
)

// shape collapses a key to its brace skeleton: runs of non-brace bytes become 'x'.
func shape(key []byte) string {
	var sb strings.Builder
	prevX := false
	for _, b := range key {
		if b == '{' || b == '}' {
			sb.WriteByte(b)
			prevX = false
		} else if !prevX {
			sb.WriteByte('x')
			prevX = true
		}
	}
	return sb.String()
}

// braceClass is the coarse shape used in finding signatures.
func braceClass(key []byte) string {
	opens := strings.Count(string(key), "{")
	switch {
	case opens == 0:
		return "no-open-brace"
	case opens == 1:
		return "one-open-brace"
	}
	return "several-open-braces"
}

type c11Case struct {
	Fn  string `json:"fn"`
	Key string `json:"key"`
}

func runC11(rep *mc.Reporter) {
	shard, nshards := mc.ShardOf()
	tier := mc.Tier()
	deadline := mc.DeadlineFromEnv()
	budget := &mc.Budget{Deadline: deadline}

	check := func(fn string, key []byte, got int) {
		want := ref.HashSlot(key)
		res := mc.OK(mc.Hash(fn, string(key)), strings.ContainsAny(string(key), "{}"), 1)
		if got != want {
			res = mc.Violation("slot differs from HASH_SLOT", fmt.Sprintf("%s:%s", fn, braceClass(key)),
				map[string]interface{}{"fn": fn, "key": fmt.Sprintf("%q", key), "got": got, "want": want})
		}
		rep.Exec(c11Case{fn, fmt.Sprintf("%q", key)}, nil, res)
	}
	evalKey := func(key []byte) {
		ks := string(key)
		check("redis.KeyToSlot", key, int(redis.KeyToSlot(ks)))
		s, err := cluster.GetSlot(ks)
		if err != nil {
			rep.Machinery("cluster.GetSlot error: "+err.Error(), nil)
			return
		}
		check("cluster.GetSlot", key, int(s))
		sb, _ := cluster.GetSlot(key)
		check("cluster.GetSlot([]byte)", key, int(sb))
	}

	// (1) all byte strings of length <= L over the brace alphabet
	alpha := []byte{'{', '}', 'a', 'b', 0xff}
	L := 6
	if tier == "thorough" {
		L = 8
	}
	idx := 0
	var gen func(prefix []byte, depth int)
	gen = func(prefix []byte, depth int) {
		if budget.Expired() {
			return
		}
		if idx%nshards == shard {
			evalKey(prefix)
		}
		idx++
		if depth == L {
			return
		}
		for _, c := range alpha {
			gen(append(append([]byte(nil), prefix...), c), depth+1)
		}
	}
	gen(nil, 0)

	// (2) every byte value in every position of short templates (non-UTF-8, NUL, CR/LF)
	templates := []string{"?", "{?}", "{?}x", "x{?}", "?{a}", "{a}?", "{?", "?}", "{a?}", "{?}{b}", "{}{?}", "a?b",
		// valid 2-, 3- and 4-byte UTF-8 runes before / inside the tag: a rune index is not a byte index
		"\xc3\xa9{?}x", "\xe2\x82\xac?{a}", "{\xc3\xa9?}", "\xf0\x9f\x98\x80{?}{b}", "\xc3\xa9\xe2\x82\xac{a?}\xc3\xa9", "?\xc3\xa9{\xf0\x9f\x98\x80}"}
	for ti, tpl := range templates {
		if ti%nshards != shard {
			continue
		}
		for v := 0; v < 256; v++ {
			key := []byte(strings.ReplaceAll(tpl, "?", string([]byte{byte(v)})))
			evalKey(key)
			if tier == "thorough" {
				for w := 0; w < 256; w += 5 {
					evalKey([]byte(strings.ReplaceAll(tpl, "?", string([]byte{byte(v), byte(w)}))))
				}
			}
		}
	}

	// (3) CRC16 table implementation vs bitwise reference on all 1- and 2-byte inputs and a few long ones
	if shard == 0 {
		for a := 0; a < 256; a++ {
			in := []byte{byte(a)}
			if digest.Crc16(string(in)) != ref.CRC16(in) {
				rep.Exec(c11Case{"digest.Crc16", fmt.Sprintf("%q", in)}, nil, mc.Violation("CRC16 differs from CRC16/XMODEM", "digest.Crc16", map[string]interface{}{"in": fmt.Sprintf("%q", in)}))
			}
			for b := 0; b < 256; b++ {
				in2 := []byte{byte(a), byte(b)}
				res := mc.OK(mc.Hash("crc", string(in2)), false, 1)
				if digest.Crc16(string(in2)) != ref.CRC16(in2) {
					res = mc.Violation("CRC16 differs from CRC16/XMODEM", "digest.Crc16", map[string]interface{}{"in": fmt.Sprintf("%q", in2)})
				}
				rep.Exec(c11Case{"digest.Crc16", fmt.Sprintf("%q", in2)}, nil, res)
			}
		}
		if ref.CRC16([]byte("123456789")) != 0x31C3 {
			rep.Machinery("reference CRC16 self-test failed", nil)
		}
	}

	// (4) derived users: slot tags for all 16384 slots, FilterSlot decisions
	if shard == 1%nshards {
		for slot := 0; slot < 16384; slot++ {
			tag := checkpoint.BisyncSlotTag(uint16(slot))
			for _, k := range []string{"{" + tag + "}", "redis-gunyu-bisync:cp:marker:{" + tag + "}", "x:{" + tag + "}:00000000000000000001"} {
				got := ref.HashSlotS(k)
				res := mc.OK(mc.Hash("tag", k), true, 1)
				if got != slot {
					res = mc.Violation("control key built from BisyncSlotTag does not hash to its slot", "BisyncSlotTag",
						map[string]interface{}{"slot": slot, "tag": tag, "key": k, "ref_slot": got})
				}
				rep.Exec(c11Case{"checkpoint.BisyncSlotTag", k}, nil, res)
			}
		}
	}
	if shard == 2%nshards {
		// FilterSlot with a single-range white list [lo,hi]: accepted <=> ref slot in range
		keys := [][]byte{[]byte("a"), []byte("{a}b"), []byte("{a}{b}"), []byte("{}{a}"), []byte("{{a}}"), []byte("}{a}"), []byte("a{b}c{d}"), {0xff, '{', 0xfe, '}'}, []byte("{a}}"), []byte("{a{b}"), []byte("\xc3\xa9{a}"), []byte("\xf0\x9f\x98\x80{\xe2\x82\xac}b")}
		for _, key := range keys {
			sl := ref.HashSlot(key)
			for _, rg := range [][2]int{{sl, sl}, {0, sl}, {sl, 16383}, {sl + 1, 16383}, {0, sl - 1}} {
				if rg[0] < 0 || rg[1] > 16383 || rg[0] > rg[1] {
					continue
				}
				f := &filter.RedisKeyFilter{}
				f.InsertSlotWhiteList([][]uint16{{uint16(rg[0]), uint16(rg[1])}})
				rejected := f.FilterSlot(string(key))
				want := !(sl >= rg[0] && sl <= rg[1])
				res := mc.OK(mc.Hash("fs", string(key), fmt.Sprint(rg)), true, 1)
				if rejected != want {
					res = mc.Violation("FilterSlot decision differs from HASH_SLOT membership", "FilterSlot:"+braceClass(key),
						map[string]interface{}{"key": fmt.Sprintf("%q", key), "range": rg, "ref_slot": sl, "rejected": rejected})
				}
				rep.Exec(c11Case{"filter.FilterSlot", fmt.Sprintf("%q %v", key, rg)}, nil, res)
			}
		}
	}

	// (5) call sequences over ONE reused buffer. The slot functions are pure by specification, but
	// the tool calls them with zero-copy string views (util.BytesToString) of buffers it rewrites in
	// place (syncer.pickSuffixDfs, the decoders): an implementation that keeps anything from an
	// earlier call (a memo keyed by the string it was given, a cached tag position) answers for the
	// OLD bytes. Every ordered pair of keys up to length 3 (and every triple up to length 2) over the
	// brace alphabet is written into the same backing array, one after the other, and each answer is
	// compared with the reference for the bytes the buffer holds at that moment.
	{
		var pool [][]byte
		var mk func(prefix []byte, depth int)
		mk = func(prefix []byte, depth int) {
			if len(prefix) > 0 {
				pool = append(pool, append([]byte(nil), prefix...))
			}
			if depth == 3 {
				return
			}
			for _, c := range alpha {
				mk(append(append([]byte(nil), prefix...), c), depth+1)
			}
		}
		mk(nil, 0)
		type slotFn struct {
			name string
			call func(view []byte) int
		}
		fns := []slotFn{
			{"redis.KeyToSlot", func(v []byte) int { return int(redis.KeyToSlot(util.BytesToString(v))) }},
			{"cluster.GetSlot", func(v []byte) int { s, _ := cluster.GetSlot(util.BytesToString(v)); return int(s) }},
			{"cluster.GetSlot([]byte)", func(v []byte) int { s, _ := cluster.GetSlot(v); return int(s) }},
		}
		seq := func(fn slotFn, keys ...[]byte) {
			buf := make([]byte, 8)
			for i, k := range keys {
				copy(buf, k)
				view := buf[:len(k)]
				got := fn.call(view)
				want := ref.HashSlot(k)
				if got != want {
					var hist []string
					for _, h := range keys[:i+1] {
						hist = append(hist, fmt.Sprintf("%q", h))
					}
					rep.Exec(c11Case{fn.name + "/reused-buffer", strings.Join(hist, " then ")}, nil,
						mc.Violation("slot differs from HASH_SLOT when the key is a view of a buffer that held another key before", fn.name+":reused-buffer",
							map[string]interface{}{"fn": fn.name, "calls_on_one_buffer": hist, "got": got, "want": want}))
					return
				}
			}
			rep.Exec(c11Case{fn.name + "/reused-buffer", fmt.Sprintf("%q..%q", keys[0], keys[len(keys)-1])}, nil,
				mc.OK(mc.Hash("seq", fn.name, fmt.Sprint(keys)), true, len(keys)))
		}
		n := 0
		for _, a := range pool {
			for _, b := range pool {
				if string(a) == string(b) || (len(a) != len(b) && len(a)+len(b) > 4) {
					continue
				}
				n++
				if n%nshards != shard || budget.Expired() {
					continue
				}
				for _, fn := range fns {
					seq(fn, a, b)
					if len(a) <= 2 && len(b) <= 2 {
						for _, c := range pool {
							if len(c) <= 2 && len(a) == len(b) && len(c) == len(a) {
								seq(fn, a, b, c)
							}
						}
					}
				}
			}
		}
	}
	if budget.Expired() {
		rep.Capped("deadline reached during key enumeration")
	}
}

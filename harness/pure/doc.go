// Package hpure hosts harnesses that call pure repository functions directly.
package hpure

//go:debug asynctimerchan=0
package cluster

import (
	"fmt"
	"os"
	"runtime/debug"
	"sync"
	"testing"
	"testing/synctest"

	"github.com/mgtv-tech/redis-GunYu/config"
	"github.com/mgtv-tech/redis-GunYu/pkg/log"
	"github.com/mgtv-tech/redis-GunYu/verifshim/mc"
)

var verifLogOnce sync.Once

func verifInitLog() {
	verifLogOnce.Do(func() {
		f := false
		lvl := os.Getenv("VERIF_LOGLEVEL")
		if lvl == "" {
			lvl = "fatal"
		}
		if err := log.InitLog(config.LogConfig{LevelStr: lvl, Handler: config.LogHandlerConfig{StdOut: true}, Caller: &f, Func: &f}); err != nil {
			panic(err)
		}
	})
}

// TestVerif dispatches on VERIF_CHECK (one test binary serves every check whose
// harness lives in package pkg/cluster).
func TestVerif(t *testing.T) {
	check := os.Getenv("VERIF_CHECK")
	if check == "" {
		t.Skip("VERIF_CHECK not set")
	}
	verifInitLog()
	rep, err := mc.NewReporter(check)
	if err != nil {
		t.Fatal(err)
	}
	defer rep.Close(nil)
	h, ok := verifChecks[check]
	if !ok {
		rep.Machinery("unknown check "+check, nil)
		return
	}
	h(t, rep)
}

var verifChecks = map[string]func(t *testing.T, rep *mc.Reporter){}

// bubble runs f inside a fresh synctest bubble and converts panics (including the
// bubble's own deadlock panic when goroutines are left blocked) into a string.
func bubble(t *testing.T, f func()) (panicMsg string) {
	defer func() {
		if r := recover(); r != nil {
			panicMsg = fmt.Sprintf("%v", r)
		}
	}()
	synctest.Test(t, func(t *testing.T) {
		defer func() {
			if r := recover(); r != nil {
				panicMsg = fmt.Sprintf("panic in harness: %v\n%s", r, debug.Stack())
			}
		}()
		f()
	})
	return
}

package syncer

import (
	"github.com/mgtv-tech/redis-GunYu/config"
	"github.com/mgtv-tech/redis-GunYu/pkg/log"
	usync "github.com/mgtv-tech/redis-GunYu/pkg/sync"
)

// Verification seam (overlaid as syncer/zz_verif_updatecheckpoint.go at build time, never
// part of the repository): a forwarder to the start-up wrapper syncer.newOutput runs
// before it builds the output ((*syncer).updateCheckpoint: id swap when the checkpoint
// is stored under the source's previous id, retry 5 x 1 s).

// VerifUpdateCheckpoint forwards to (*syncer).updateCheckpoint and returns the run id newOutput puts into the output configuration.
func VerifUpdateCheckpoint(out config.RedisConfig, local string, ids []string) (string, error) {
	s := &syncer{cfg: SyncerConfig{Output: out}, logger: log.WithLogger("[verif] ")}
	return s.updateCheckpoint(usync.NewWaitCloser(nil), local, ids)
}

package redis

// Verification seam for C12 (overlaid as pkg/redis/client/cluster/zz_verif_c12_seam.go at
// build time; never part of the repository). Forwarders only: redisConn, the RESP writer
// every send to a cluster target goes through, is unexported.

import (
	"bufio"
	"net"
)

// VerifConn is a redisConn built the way node.go builds one (bufio reader/writer over the
// connection), with the writer size as a parameter.
type VerifConn struct{ c *redisConn }

func VerifNewConn(nc net.Conn, writerSize int) *VerifConn {
	return &VerifConn{c: &redisConn{c: nc, br: bufio.NewReader(nc), bw: bufio.NewWriterSize(nc, writerSize)}}
}

// Send is redisConn.send (what batch.go, batch_pipe.go, txn_batcher.go, node.go and the ASK
// re-send call for every command).
func (v *VerifConn) Send(cmd string, args ...interface{}) error { return v.c.send(cmd, args...) }

// Flush is redisConn.flush.
func (v *VerifConn) Flush() error { return v.c.flush() }

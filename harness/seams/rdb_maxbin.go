package rdb

// Verification seam (overlaid as pkg/rdb/zz_verif_seam.go at build time, never part of
// the repository): a one-line forwarder to the unexported chunking threshold.

// VerifSetMaxBinEntryBuffer sets maxBinEntryBuffer and returns the previous value.
func VerifSetMaxBinEntryBuffer(n int) int { old := maxBinEntryBuffer; maxBinEntryBuffer = n; return old }

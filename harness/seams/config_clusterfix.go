package config

// Verification seam (overlaid as config/zz_verif_clusterfix.go at build time, never part
// of the repository): a one-line forwarder to the unexported ClusterConfig.fix.

// VerifClusterFix runs cc.fix().
func VerifClusterFix(cc *ClusterConfig) error { return cc.fix() }

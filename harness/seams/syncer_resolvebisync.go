package syncer

import (
	"github.com/mgtv-tech/redis-GunYu/config"
	"github.com/mgtv-tech/redis-GunYu/pkg/log"
	"github.com/mgtv-tech/redis-GunYu/pkg/redis/checkpoint"
	"github.com/mgtv-tech/redis-GunYu/pkg/redis/client"
)

// Verification seam (overlaid as syncer/zz_verif_resolvebisync.go at build time, never
// part of the repository): a forwarder to the unexported bidirectional namespace
// resolution that syncer.newOutput runs (resolveBisyncCheckpointName without its retry
// wrapper), with the arguments newOutput derives from its configuration.

// VerifResolveBisyncCheckpointName forwards to (*syncer).resolveBisyncCheckpointNameWithClient.
func VerifResolveBisyncCheckpointName(cli client.Redis, out config.RedisConfig, ids []string, mode config.ReplayMode) (string, error) {
	s := &syncer{cfg: SyncerConfig{Output: out}, logger: log.WithLogger("[verif] ")}
	return s.resolveBisyncCheckpointNameWithClient(cli, ids, checkpoint.BisyncModeFromReplayMode(mode), bisyncRecoverySlotsForConfig(out))
}

package store

// Seam for check C16 (overlaid as pkg/store/zz_verif_c16_seam.go; a one-line setter, no logic).

// VerifC16SetReadBufSize sets the size of the pipe/bufio buffers handed to new readers
// (1 MiB by default). A buffer size, not logic: the harness keeps it far above the number
// of bytes any scenario stores, so the reader never blocks on a full pipe, while the
// allocation rate of thousands of executions stays low.
func (s *Storer) VerifC16SetReadBufSize(n int) { s.readBufSize = n }

package cmd

import "github.com/mgtv-tech/redis-GunYu/syncer"

// Verification seam (overlaid as cmd/zz_verif_newsyncer.go at build time, never part of the
// repository). The `call:syncer.NewSyncer=verifNewSyncer` transform redirects the two
// syncer.NewSyncer(cfg) calls of cmd/syncer.go to this variable, so that a harness can run
// the real SyncerCmd.run / runCluster with a syncer whose data path is a stub.
var verifNewSyncer = syncer.NewSyncer

package cmd

import (
	"context"
	"encoding/json"
	"fmt"
	"os"
	"strings"
	"sync"
	"testing"
	"time"

	"github.com/mgtv-tech/redis-GunYu/config"
	"github.com/mgtv-tech/redis-GunYu/pkg/cluster"
	usync "github.com/mgtv-tech/redis-GunYu/pkg/sync"
	"github.com/mgtv-tech/redis-GunYu/verifshim/mc"
	"github.com/mgtv-tech/redis-GunYu/verifshim/redisd"
	"github.com/mgtv-tech/redis-GunYu/verifshim/vnet"
)

// ---------------------------------------------------------------------------
// C15, second harness: the real SyncerCmd.clusterCampaign / clusterTicker /
// clusterRenew (+ util.Retry, the real time.Ticker on the bubble clock) of TWO
// instances contending through the real Redis election. Each instance is driven by
// the outer loop of runCluster reduced to its lease handling (campaign; while the
// ticker's wait is open the instance "syncs" in its role; resign when a leader stops;
// restart of the cluster client after a failure). The explorer decides the fate of
// every request the store receives (delivered / answered with an error / executed but
// reply lost / connection dead before the request), deviation-bounded.
//
// Third part: ClusterConfig.fix over a grid of (leaseTimeout, leaseRenewInterval).

type c15tScenario struct {
	Kind     string `json:"kind"` // "ticker" | "config-fix"
	TimeoutS int    `json:"lease_timeout_s,omitempty"`
	RenewMs  int    `json:"lease_renew_interval_ms,omitempty"`
	HorizonS int    `json:"horizon_s,omitempty"`
	// config-fix
	InTimeoutMs int64 `json:"in_timeout_ms,omitempty"`
	InRenewMs   int64 `json:"in_renew_ms,omitempty"`
}

type c15tInst struct {
	id        string
	active    bool  // syncing as leader: campaign said leader and clusterTicker has not returned
	lastOK    int64 // ms: last time the instance was told "leader" (campaign) or a renewal succeeded
	following bool
}

func c15tExec(t *testing.T, scn c15tScenario, ch *mc.Chooser) mc.Result {
	var res *mc.Result
	var trace []string
	var machinery string
	events := 0
	msg := bubble(t, func() {
		vnet.Reset()
		srv := redisd.New(c15Addr)
		cc := &config.ClusterConfig{GroupName: "g1", LeaseTimeout: time.Duration(scn.TimeoutS) * time.Second, LeaseRenewInterval: time.Duration(scn.RenewMs) * time.Millisecond}
		if err := config.VerifClusterFix(cc); err != nil {
			machinery = "config fix: " + err.Error()
			return
		}
		config.GetSyncerConfig().Cluster = cc
		defer func() { config.GetSyncerConfig().Cluster = nil }()
		ttl := int(cc.LeaseTimeout / time.Second) // as SyncerCmd.run computes it
		ttlMs := int64(ttl) * 1000
		start := time.Now()
		ms := func() int64 { return time.Since(start).Milliseconds() }

		var mu sync.Mutex
		inst := []*c15tInst{{id: "10.0.0.1:18001", lastOK: -1}, {id: "10.0.0.2:18001", lastOK: -1}}
		connOwner := map[int]int{}
		viol := func(clause, sig string, d map[string]interface{}) {
			if res != nil {
				return
			}
			d["trace"] = append([]string(nil), trace...)
			d["lease_timeout_s"], d["renew_interval"] = ttl, cc.LeaseRenewInterval.String()
			r := mc.Violation(clause, sig, d)
			res = &r
		}
		// check is called (mu held) whenever something changed and at sampling instants
		check := func(where string) {
			now := ms()
			n := 0
			for i, in := range inst {
				if !in.active {
					continue
				}
				n++
				if in.lastOK < 0 || now >= in.lastOK+ttlMs {
					viol("an instance keeps acting as leader although its lease period has run out (no successful campaign/renewal within one lease period)",
						"C15:ticker:leader-past-lease", map[string]interface{}{"instance": i + 1, "now_ms": now, "last_success_ms": in.lastOK, "at": where})
				}
			}
			if n > 1 {
				viol("two instances act as leader of the same source at the same time", "C15:ticker:two-active-leaders", map[string]interface{}{"now_ms": now, "at": where})
			}
		}
		// ---- the explorer decides the fate of every election request
		nreq := 0
		ending := false
		plan := srv.PlanRef()
		plan.OnRequest = func(r *redisd.Req) {
			if r.Name() != "eval" {
				return
			}
			mu.Lock()
			who, ok := connOwner[r.Conn]
			end := ending
			mu.Unlock()
			if !ok || end {
				return
			}
			nreq++
			isCampaign := strings.Contains(string(r.Argv[1]), "EXPIRE")
			kind := "campaign/renew"
			if !isCampaign {
				kind = "resign"
			}
			c := ch.Choose(fmt.Sprintf("req%d", nreq), 3)
			events++
			mu.Lock()
			trace = append(trace, fmt.Sprintf("t=%dms i%d %s -> %s", ms(), who+1, kind, []string{"delivered", "error reply (not executed)", "executed, reply lost"}[c]))
			mu.Unlock()
			seq := r.Seq
			if c == 1 {
				if plan.FailAt == nil {
					plan.FailAt = map[int]string{}
				}
				plan.FailAt[seq] = "ERR injected failure"
			}
			plan.AfterReq = func(r2 *redisd.Req) {
				if r2.Seq != seq {
					return
				}
				plan.AfterReq = nil
				if c == 2 {
					srv.KillConnLocked(r2.Conn, true)
					return
				}
				// a delivered ":1" of the campaign script is the only way Campaign answers leader /
				// Renew returns nil: its time is the last success the instance knows of
				if isCampaign && r2.Executed && !r2.Failed && strings.HasPrefix(r2.Reply, ":1") {
					mu.Lock()
					inst[who].lastOK = ms()
					mu.Unlock()
				}
			}
		}

		runWait := usync.NewWaitCloser(nil)
		var wg sync.WaitGroup
		drive := func(i int, phase time.Duration) {
			defer wg.Done()
			time.Sleep(phase)
			in := inst[i]
			sc := NewSyncerCmd()
			var cl cluster.Cluster
			var el cluster.Election
			connect := func() bool {
				if cl != nil {
					cl.Close()
					cl = nil
				}
				c, err := cluster.NewRedisCluster(runWait.Context(), config.RedisConfig{Addresses: []string{c15Addr}, Type: config.RedisTypeStandalone, Otype: config.RedisTypeStandalone, Version: "7.2.0"}, ttl)
				if err != nil {
					return false
				}
				mu.Lock()
				connOwner[srv.LastConn()] = i
				mu.Unlock()
				cl = c
				el = cl.NewElection(runWait.Context(), c15Key, in.id)
				return true
			}
			defer func() {
				if cl != nil {
					cl.Close()
				}
			}()
			for !runWait.IsClosed() {
				if cl == nil && !connect() {
					runWait.Sleep(time.Second)
					continue
				}
				role, err := sc.clusterCampaign(runWait.Context(), el)
				if err != nil {
					// runCluster closes the run with ErrRestart; SyncerCmd.Run starts over with a new cluster client
					cl.Close()
					cl = nil
					runWait.Sleep(time.Second)
					continue
				}
				if role == cluster.RoleCandidate {
					runWait.Sleep(time.Second)
					continue
				}
				wait := usync.NewWaitCloserFromParent(runWait, nil)
				mu.Lock()
				if role == cluster.RoleLeader {
					in.active, in.lastOK = true, ms()
					trace = append(trace, fmt.Sprintf("t=%dms i%d starts syncing as LEADER", ms(), i+1))
				} else {
					in.following = true
				}
				check("role taken")
				mu.Unlock()
				// the real renewal loop; returns when the wait is closed
				sc.clusterTicker(wait, role, el, "src", c15Key)
				mu.Lock()
				if in.active {
					trace = append(trace, fmt.Sprintf("t=%dms i%d stops syncing as leader (%v)", ms(), i+1, wait.Error()))
				}
				in.active, in.following = false, false
				mu.Unlock()
				werr := wait.Error()
				wait.Close(nil)
				if role == cluster.RoleLeader {
					rctx, cancel := context.WithTimeout(context.Background(), 5*time.Second)
					rerr := el.Resign(rctx)
					cancel()
					if rerr != nil && werr == nil {
						werr = rerr
					}
				}
				if werr != nil {
					// ErrBreak: the run ends, the process-level loop starts a new one
					cl.Close()
					cl = nil
					runWait.Sleep(time.Second)
				}
			}
		}
		wg.Add(2)
		go drive(0, 0)
		go drive(1, 250*time.Millisecond)
		// ---- sampling monitor on the harness goroutine (never at the same instant as an instance acts)
		horizon := time.Duration(scn.HorizonS) * time.Second
		time.Sleep(125 * time.Millisecond)
		for time.Since(start) < horizon && res == nil {
			mu.Lock()
			check("sample")
			mu.Unlock()
			time.Sleep(250 * time.Millisecond)
		}
		mu.Lock()
		ending = true
		mu.Unlock()
		runWait.Close(nil)
		wg.Wait()
		if len(srv.MachineryErrors) > 0 {
			machinery = "double: " + strings.Join(srv.MachineryErrors, "; ")
		}
	})
	if msg != "" {
		machinery = "bubble: " + msg
	}
	if machinery != "" {
		return mc.Result{Verdict: "machinery", Clause: machinery, Detail: trace}
	}
	if os.Getenv("VERIF_TRACE") != "" {
		fmt.Fprintln(os.Stderr, strings.Join(trace, "\n"))
	}
	if res != nil {
		return *res
	}
	return mc.OK(mc.Hash(trace...), ch.Deviations() > 0, events)
}

// c15ConfigFix judges ClusterConfig.fix for one input.
func c15ConfigFix(scn c15tScenario) mc.Result {
	cc := &config.ClusterConfig{GroupName: "g", LeaseTimeout: time.Duration(scn.InTimeoutMs) * time.Millisecond, LeaseRenewInterval: time.Duration(scn.InRenewMs) * time.Millisecond}
	if err := config.VerifClusterFix(cc); err != nil {
		return mc.Violation("ClusterConfig.fix rejected a configuration with a group name", "C15:config-fix:error", map[string]interface{}{"error": err.Error()})
	}
	d := map[string]interface{}{"in_timeout": (time.Duration(scn.InTimeoutMs) * time.Millisecond).String(), "in_renew": (time.Duration(scn.InRenewMs) * time.Millisecond).String(),
		"out_timeout": cc.LeaseTimeout.String(), "out_renew": cc.LeaseRenewInterval.String()}
	ttl := time.Duration(int(cc.LeaseTimeout/time.Second)) * time.Second // lease period the store is given
	switch {
	case ttl < time.Second:
		return mc.Violation("the lease period handed to the store is below one second", "C15:config-fix:ttl-below-1s", d)
	case cc.LeaseRenewInterval <= 0:
		return mc.Violation("the renew interval is not positive", "C15:config-fix:renew-not-positive", d)
	case cc.LeaseRenewInterval > cc.LeaseTimeout/3:
		return mc.Violation("leaseRenewInterval exceeds leaseTimeout/3 after fix()", "C15:config-fix:renew-above-third", d)
	}
	return mc.OK(mc.Hash(cc.LeaseTimeout.String(), cc.LeaseRenewInterval.String()), scn.InTimeoutMs != 0 || scn.InRenewMs != 0, 1)
}

func c15tScenarios(tier string) (out []c15tScenario, bound int) {
	bound = 2
	out = []c15tScenario{{Kind: "ticker", TimeoutS: 3, RenewMs: 1000, HorizonS: 8}, {Kind: "ticker", TimeoutS: 6, RenewMs: 2000, HorizonS: 10}}
	if tier == "thorough" {
		bound = 3
		out = []c15tScenario{{Kind: "ticker", TimeoutS: 3, RenewMs: 1000, HorizonS: 10}, {Kind: "ticker", TimeoutS: 6, RenewMs: 2000, HorizonS: 14}, {Kind: "ticker", TimeoutS: 9, RenewMs: 1000, HorizonS: 12}}
	}
	return
}

func c15ConfigGrid() []c15tScenario {
	var out []c15tScenario
	ts := []int64{0, 1, 999, 1000, 2999, 3000, 3001, 3500, 3999, 4000, 5999, 6000, 10000, 10500, 599999, 600000, 600001, 3600000}
	rs := []int64{0, 1, 999, 1000, 1001, 1166, 1167, 1333, 1334, 1999, 2000, 2001, 3333, 3334, 199999, 200000, 200001, 1200000}
	for _, a := range ts {
		for _, b := range rs {
			out = append(out, c15tScenario{Kind: "config-fix", InTimeoutMs: a, InRenewMs: b})
		}
	}
	return out
}

// runC15Ticker is called by runC15 after the BFS plans.
func runC15Ticker(t *testing.T, rep *mc.Reporter, budget *mc.Budget) {
	shard, nshards := mc.ShardOf()
	scns, bound := c15tScenarios(mc.Tier())
	idx := 0
	for _, scn := range c15ConfigGrid() {
		idx++
		if idx%nshards != shard {
			continue
		}
		rep.Exec(scn, nil, c15ConfigFix(scn))
	}
	for _, scn := range scns {
		scn := scn
		idx++
		if idx%nshards != shard || budget.Expired() {
			continue
		}
		mc.RunScenario(rep, scn, bound, budget, func(ch *mc.Chooser) mc.Result { return c15tExec(t, scn, ch) })
	}
}

// replay support
func c15tReplay(t *testing.T, rep *mc.Reporter, rp *mc.Replay) bool {
	var scn c15tScenario
	if err := json.Unmarshal(rp.Scenario, &scn); err != nil || scn.Kind == "" {
		return false
	}
	if scn.Kind == "config-fix" {
		rep.Exec(scn, nil, c15ConfigFix(scn))
		return true
	}
	rep.Exec(scn, rp.Choices, c15tExec(t, scn, mc.NewChooser(rp.Choices)))
	return true
}

package cmd

import (
	"context"
	"encoding/json"
	"fmt"
	"os"
	"sort"
	"strings"
	"sync"
	"testing"
	"testing/synctest"
	"time"

	"github.com/mgtv-tech/redis-GunYu/config"
	"github.com/mgtv-tech/redis-GunYu/pkg/cluster"
	usync "github.com/mgtv-tech/redis-GunYu/pkg/sync"
	"github.com/mgtv-tech/redis-GunYu/verifshim/mc"
	"github.com/mgtv-tech/redis-GunYu/verifshim/redisd"
	"github.com/mgtv-tech/redis-GunYu/verifshim/vnet"
)

// ---------------------------------------------------------------------------
// C15, second harness: the real SyncerCmd.clusterCampaign / clusterTicker /
// clusterRenew (+ util.Retry, the real time.Ticker on the bubble clock) of TWO
// instances contending through the real Redis election. Each instance is driven by
// the outer loop of runCluster reduced to its lease handling (campaign; while the
// ticker's wait is open the instance "syncs" in its role; resign when a leader stops;
// restart of the cluster client after a failure). The explorer decides the fate of
// every request the store receives (delivered / answered with an error / executed but
// reply lost / connection dead before the request), deviation-bounded. In addition a
// complete fault dimension: one instance is cut off from the store (or the store answers
// it with errors) for EVERY consecutive run of its election calls, starting at every
// call, for every listed (leaseTimeout, renewInterval) pair - including timeouts that are
// not a multiple of the interval - and every phase of the second instance's ticks.
//
// Third part: ClusterConfig.fix over a grid of (leaseTimeout, leaseRenewInterval).

type c15tScenario struct {
	Kind     string     `json:"kind"` // "ticker" | "config-fix"
	TimeoutS int        `json:"lease_timeout_s,omitempty"`
	RenewMs  int        `json:"lease_renew_interval_ms,omitempty"`
	HorizonS int        `json:"horizon_s,omitempty"`
	PhaseMs  int        `json:"phase_ms,omitempty"` // start of the second instance (odd multiple of 250 ms: the two instances never act at the same instant)
	Fault    *c15tFault `json:"fault,omitempty"`    // nil: the explorer decides every request's fate (deviation-bounded)
	// config-fix
	InTimeoutMs int64 `json:"in_timeout_ms,omitempty"`
	InRenewMs   int64 `json:"in_renew_ms,omitempty"`
}

// c15tFault is one element of the complete fault dimension.
type c15tFault struct {
	Victim int    `json:"victim"` // 1 | 2
	Kind   string `json:"fate"`   // "error-reply": the store answers errors, the connection survives
	//                               "cut": the connection dies before the call reaches the store and the instance cannot reconnect
	//                               "reply-lost": the call is executed, its reply is lost with the connection, then as "cut"
	//                               "delayed-reply": the call is executed at once, its reply arrives only after the caller's context deadline
	//                               (renew interval) has passed, on a connection that stays open; with length g > 0 the store answers errors
	//                               to every call from the g-th call after it on
	Start int `json:"start_call"`      // the victim's n-th election call (campaign/renew/resign attempts, 1-based) is the first one hit
	Len   int `json:"length"`          // error-reply: number of consecutive calls hit; cut/reply-lost: seconds without the store; 0 = until the end
	Shard int `json:"shard,omitempty"` // real-run family only: which source shard's lease calls are hit (0-based)
}

type c15tInst struct {
	id        string
	active    bool  // syncing as leader: campaign said leader and clusterTicker has not returned
	lastOK    int64 // ms: last time the instance was told "leader" (campaign) or a renewal succeeded
	following bool
	renewErr  int64       // ms: time of the most recent Renew call if it returned an error and no Renew succeeded since (-1 none)
	calls     int         // election calls that reached (or were about to reach) the store
	cutUntil  int64       // ms: the instance cannot reach the store before this time (-1: not cut; maxInt: for good)
	grants    int         // campaign/renew requests of this instance the store executed and granted
	unproven  []c15tClaim // successes the instance was told that still have to be matched with a grant
}

// c15tClaim: the instance was told "leader"/"renewed" by a call that began when it had `grants` grants.
type c15tClaim struct {
	what   string
	grants int
	at     int64
}

// c15tElection passes every call to the real election and notes what it returned.
type c15tElection struct {
	cluster.Election
	onRenew func(err error)
	begin   func() int                // grants so far
	told    func(what string, g0 int) // the call that began at g0 grants reported success
}

func (e *c15tElection) Renew(ctx context.Context) error {
	g0 := e.begin()
	err := e.Election.Renew(ctx)
	e.onRenew(err)
	if err == nil {
		e.told("renewed", g0)
	}
	return err
}

func (e *c15tElection) Campaign(ctx context.Context) (cluster.ClusterRole, error) {
	g0 := e.begin()
	role, err := e.Election.Campaign(ctx)
	if err == nil && role == cluster.RoleLeader {
		e.told("leader", g0)
	}
	return role, err
}

const c15tForever = int64(1) << 60

func c15tExec(t *testing.T, scn c15tScenario, ch *mc.Chooser) mc.Result {
	r, _ := c15tExecN(t, scn, ch)
	return r
}

// c15tExecN also returns how many election calls each instance made.
func c15tExecN(t *testing.T, scn c15tScenario, ch *mc.Chooser) (mc.Result, [2]int) {
	var calls [2]int
	var res *mc.Result
	found := map[string]mc.Result{}
	var trace []string
	var machinery string
	events := 0
	msg := bubble(t, func() {
		vnet.Reset()
		srv := redisd.New(c15Addr)
		c15StrictStore(srv)
		cc := &config.ClusterConfig{GroupName: "g1", LeaseTimeout: time.Duration(scn.TimeoutS) * time.Second, LeaseRenewInterval: time.Duration(scn.RenewMs) * time.Millisecond}
		if err := config.VerifClusterFix(cc); err != nil {
			machinery = "config fix: " + err.Error()
			return
		}
		config.GetSyncerConfig().Cluster = cc
		defer func() { config.GetSyncerConfig().Cluster = nil }()
		ttl := int(cc.LeaseTimeout / time.Second) // as SyncerCmd.run computes it
		ttlMs := int64(ttl) * 1000
		start := time.Now()
		ms := func() int64 { return time.Since(start).Milliseconds() }

		var mu sync.Mutex
		inst := []*c15tInst{{id: "10.0.0.1:18001", lastOK: -1, renewErr: -1, cutUntil: -1}, {id: "10.0.0.2:18001", lastOK: -1, renewErr: -1, cutUntil: -1}}
		connOwner := map[int]int{}
		viol := func(clause, sig string, d map[string]interface{}) {
			if _, ok := found[sig]; ok {
				return
			}
			d["trace"] = append([]string(nil), trace...)
			d["lease_timeout"], d["store_lease_period_s"], d["renew_interval"] = cc.LeaseTimeout.String(), ttl, cc.LeaseRenewInterval.String()
			trace = append(trace, fmt.Sprintf("t=%dms VIOLATION %s", ms(), sig))
			found[sig] = mc.Violation(clause, sig, d)
		}
		// check is called (mu held) whenever something changed and at sampling instants
		check := func(where string) {
			now := ms()
			n := 0
			for i, in := range inst {
				if !in.active {
					continue
				}
				n++
				if in.renewErr >= 0 && now > in.renewErr {
					viol("a renewal failed but the leader loop keeps running: the failed renewal is not reported as loss of leadership",
						"C15:ticker:failed-renewal-not-reported", map[string]interface{}{"instance": i + 1, "now_ms": now, "renew_failed_at_ms": in.renewErr, "last_success_ms": in.lastOK, "at": where})
				}
				if in.lastOK < 0 || now >= in.lastOK+ttlMs {
					viol("an instance keeps acting as leader although its lease period has run out (no successful campaign/renewal within one lease period)",
						"C15:ticker:leader-past-lease", map[string]interface{}{"instance": i + 1, "now_ms": now, "last_success_ms": in.lastOK, "at": where})
				}
			}
			if n > 1 {
				viol("two instances act as leader of the same source at the same time", "C15:ticker:two-active-leaders", map[string]interface{}{"now_ms": now, "at": where})
			}
		}
		// ---- the explorer decides the fate of every election request
		heldConn, heldDue := 0, int64(-1) // a reply the store is sitting on, and when it lets it go
		nreq := 0
		ending := false
		plan := srv.PlanRef()
		plan.OnRequest = func(r *redisd.Req) {
			script, isEval := c15EvalScript(srv, r)
			if !isEval {
				return
			}
			mu.Lock()
			who, ok := connOwner[r.Conn]
			end := ending
			mu.Unlock()
			if !ok || end {
				return
			}
			nreq++
			isCampaign := strings.Contains(script, "EXPIRE")
			kind := "campaign/renew"
			if !isCampaign {
				kind = "resign"
			}
			c := 0
			if f := scn.Fault; f == nil {
				c = ch.Choose(fmt.Sprintf("req%d", nreq), 3)
			} else {
				mu.Lock()
				inst[who].calls++
				n := inst[who].calls
				if who == f.Victim-1 {
					until := c15tForever
					switch f.Kind {
					case "error-reply":
						if n >= f.Start && (f.Len == 0 || n < f.Start+f.Len) {
							c = 1
						}
					case "delayed-reply":
						if n == f.Start {
							c = 4
						} else if f.Len > 0 && n >= f.Start+f.Len {
							c = 1
						}
					case "cut", "reply-lost":
						if n == f.Start {
							c = 3
							if f.Kind == "reply-lost" {
								c = 2
							}
							if f.Len > 0 {
								until = ms() + int64(f.Len)*1000
							}
							inst[who].cutUntil = until
						}
					}
				}
				mu.Unlock()
			}
			events++
			mu.Lock()
			trace = append(trace, fmt.Sprintf("t=%dms i%d %s -> %s", ms(), who+1, kind, []string{"delivered", "error reply (not executed)", "executed, reply lost, connection dead", "never reaches the store, connection dead", "executed, reply delayed beyond the caller's deadline"}[c]))
			mu.Unlock()
			seq := r.Seq
			if c == 4 {
				plan.Hold = true // only this reply: the client sends nothing else on the connection before it has read it
			}
			if c == 1 || c == 3 {
				if plan.FailAt == nil {
					plan.FailAt = map[int]string{}
				}
				plan.FailAt[seq] = "ERR injected failure"
			}
			plan.AfterReq = func(r2 *redisd.Req) {
				if r2.Seq != seq {
					return
				}
				plan.AfterReq = nil
				if c == 2 || c == 3 {
					srv.KillConnLocked(r2.Conn, true)
					return
				}
				if c == 4 {
					plan.Hold = false
					mu.Lock()
					heldConn, heldDue = r2.Conn, ms()+cc.LeaseRenewInterval.Milliseconds()+1
					mu.Unlock()
					// the reply arrives 1 ms after the caller's deadline, at an instant at which nobody else acts
					time.AfterFunc(cc.LeaseRenewInterval+time.Millisecond, func() {
						mu.Lock()
						rel := 0
						if heldDue >= 0 {
							rel, heldDue = heldConn, -1
						}
						mu.Unlock()
						if rel != 0 {
							srv.Release(rel, 0)
						}
					})
				}
				if isCampaign && r2.Executed && !r2.Failed && strings.HasPrefix(r2.Reply, ":1") {
					mu.Lock()
					inst[who].grants++
					mu.Unlock()
				}
				// a delivered ":1" of the campaign script is the only way Campaign answers leader /
				// Renew returns nil: its time is the last success the instance knows of
				if isCampaign && r2.Executed && !r2.Failed && strings.HasPrefix(r2.Reply, ":1") {
					mu.Lock()
					inst[who].lastOK = ms()
					mu.Unlock()
				}
			}
		}

		runWait := usync.NewWaitCloser(nil)
		var wg sync.WaitGroup
		drive := func(i int, phase time.Duration) {
			defer wg.Done()
			time.Sleep(phase)
			in := inst[i]
			sc := NewSyncerCmd()
			var cl cluster.Cluster
			var el cluster.Election
			connect := func() bool {
				if cl != nil {
					cl.Close()
					cl = nil
				}
				mu.Lock()
				cut := ms() < in.cutUntil
				mu.Unlock()
				if cut {
					return false // connection refused / unreachable
				}
				c, err := cluster.NewRedisCluster(runWait.Context(), config.RedisConfig{Addresses: []string{c15Addr}, Type: config.RedisTypeStandalone, Otype: config.RedisTypeStandalone, Version: "7.2.0"}, ttl)
				if err != nil {
					return false
				}
				mu.Lock()
				connOwner[srv.LastConn()] = i
				mu.Unlock()
				cl = c
				el = &c15tElection{Election: cl.NewElection(runWait.Context(), c15Key, in.id), onRenew: func(err error) {
					// A caller that honours its deadline has given up by now while the store still sits on its reply: the
					// reply arrives right now, just after the deadline. (The retry that follows would otherwise block on
					// the connection's sync.Mutex, which is not durably blocking: the bubble's clock would stop for good.)
					mu.Lock()
					rel := 0
					if err != nil && heldDue >= 0 && connOwner[heldConn] == i {
						rel, heldDue = heldConn, -1
					}
					mu.Unlock()
					if rel != 0 {
						srv.Release(rel, 0)
						synctest.Wait()
					}
					mu.Lock()
					if err != nil {
						in.renewErr = ms()
						trace = append(trace, fmt.Sprintf("t=%dms i%d Renew returned error: %v", ms(), i+1, strings.ReplaceAll(err.Error(), "\n", " ")))
					} else {
						in.renewErr = -1
					}
					mu.Unlock()
				}, begin: func() int {
					mu.Lock()
					defer mu.Unlock()
					return in.grants
				}, told: func(what string, g0 int) {
					mu.Lock()
					in.unproven = append(in.unproven, c15tClaim{what, g0, ms()})
					mu.Unlock()
				}}
				return true
			}
			defer func() {
				if cl != nil {
					cl.Close()
				}
			}()
			for !runWait.IsClosed() {
				if cl == nil && !connect() {
					runWait.Sleep(time.Second)
					continue
				}
				role, err := sc.clusterCampaign(runWait.Context(), el)
				if err != nil {
					// runCluster closes the run with ErrRestart; SyncerCmd.Run starts over with a new cluster client
					cl.Close()
					cl = nil
					runWait.Sleep(time.Second)
					continue
				}
				if role == cluster.RoleCandidate {
					runWait.Sleep(time.Second)
					continue
				}
				wait := usync.NewWaitCloserFromParent(runWait, nil)
				mu.Lock()
				in.renewErr = -1
				if role == cluster.RoleLeader {
					in.active, in.lastOK = true, ms()
					trace = append(trace, fmt.Sprintf("t=%dms i%d starts syncing as LEADER", ms(), i+1))
				} else {
					in.following = true
				}
				check("role taken")
				mu.Unlock()
				// the real renewal loop; returns when the wait is closed
				sc.clusterTicker(wait, role, el, "src", c15Key)
				mu.Lock()
				if in.active {
					trace = append(trace, fmt.Sprintf("t=%dms i%d stops syncing as leader (%v)", ms(), i+1, wait.Error()))
				}
				in.active, in.following = false, false
				mu.Unlock()
				werr := wait.Error()
				wait.Close(nil)
				if role == cluster.RoleLeader {
					rctx, cancel := context.WithTimeout(context.Background(), 5*time.Second)
					rerr := el.Resign(rctx)
					cancel()
					if rerr != nil && werr == nil {
						werr = rerr
					}
				}
				if werr != nil {
					// ErrBreak: the run ends, the process-level loop starts a new one
					cl.Close()
					cl = nil
					runWait.Sleep(time.Second)
				}
			}
		}
		wg.Add(2)
		go drive(0, 0)
		phase := time.Duration(scn.PhaseMs) * time.Millisecond
		if phase == 0 {
			phase = 250 * time.Millisecond
		}
		go drive(1, phase)
		// ---- sampling monitor on the harness goroutine (never at the same instant as an instance acts)
		horizon := time.Duration(scn.HorizonS) * time.Second
		time.Sleep(125 * time.Millisecond)
		for time.Since(start) < horizon {
			mu.Lock()
			// whoever was told "leader" / "renewed" must have been granted a request of THAT call by the store
			for i, in := range inst {
				for _, cl := range in.unproven {
					if cl.at < ms() && in.grants <= cl.grants {
						viol("an instance was told "+cl.what+" by a call none of whose requests the store granted (the answer belongs to another call)", "C15:ticker:told-success-without-grant",
							map[string]interface{}{"instance": i + 1, "told_at_ms": cl.at, "what": cl.what})
					}
				}
				in.unproven = nil
			}
			check("sample")
			mu.Unlock()
			time.Sleep(250 * time.Millisecond)
		}
		mu.Lock()
		ending = true
		mu.Unlock()
		srv.ReleaseAll()
		runWait.Close(nil)
		wg.Wait()
		calls = [2]int{inst[0].calls, inst[1].calls}
		// the gravest clause that was broken is the verdict; the others are listed with it
		for _, sig := range []string{"C15:ticker:two-active-leaders", "C15:ticker:leader-past-lease", "C15:ticker:told-success-without-grant", "C15:ticker:failed-renewal-not-reported"} {
			if r, ok := found[sig]; ok && res == nil {
				var all []string
				for k := range found {
					all = append(all, k)
				}
				sort.Strings(all)
				r.Detail.(map[string]interface{})["all_clauses_broken"] = all
				r.Detail.(map[string]interface{})["trace"] = append([]string(nil), trace...)
				res = &r
			}
		}
		if len(srv.MachineryErrors) > 0 {
			machinery = "double: " + strings.Join(srv.MachineryErrors, "; ")
		}
	})
	if msg != "" {
		machinery = "bubble: " + msg
	}
	if machinery != "" {
		return mc.Result{Verdict: "machinery", Clause: machinery, Detail: trace}, calls
	}
	if os.Getenv("VERIF_TRACE") != "" {
		fmt.Fprintln(os.Stderr, strings.Join(trace, "\n"))
	}
	if res != nil {
		return *res, calls
	}
	return mc.OK(mc.Hash(trace...), ch.Deviations() > 0 || scn.Fault != nil, events), calls
}

// c15ConfigFix judges ClusterConfig.fix for one input.
func c15ConfigFix(scn c15tScenario) mc.Result {
	cc := &config.ClusterConfig{GroupName: "g", LeaseTimeout: time.Duration(scn.InTimeoutMs) * time.Millisecond, LeaseRenewInterval: time.Duration(scn.InRenewMs) * time.Millisecond}
	if err := config.VerifClusterFix(cc); err != nil {
		return mc.Violation("ClusterConfig.fix rejected a configuration with a group name", "C15:config-fix:error", map[string]interface{}{"error": err.Error()})
	}
	d := map[string]interface{}{"in_timeout": (time.Duration(scn.InTimeoutMs) * time.Millisecond).String(), "in_renew": (time.Duration(scn.InRenewMs) * time.Millisecond).String(),
		"out_timeout": cc.LeaseTimeout.String(), "out_renew": cc.LeaseRenewInterval.String()}
	ttl := time.Duration(int(cc.LeaseTimeout/time.Second)) * time.Second // lease period the store is given
	switch {
	case ttl < time.Second:
		return mc.Violation("the lease period handed to the store is below one second", "C15:config-fix:ttl-below-1s", d)
	case cc.LeaseRenewInterval <= 0:
		return mc.Violation("the renew interval is not positive", "C15:config-fix:renew-not-positive", d)
	case cc.LeaseRenewInterval > cc.LeaseTimeout/3:
		return mc.Violation("leaseRenewInterval exceeds leaseTimeout/3 after fix()", "C15:config-fix:renew-above-third", d)
	}
	return mc.OK(mc.Hash(cc.LeaseTimeout.String(), cc.LeaseRenewInterval.String()), scn.InTimeoutMs != 0 || scn.InRenewMs != 0, 1)
}

// c15tConfigs lists (leaseTimeout s, renewInterval ms, horizon s, phases of the second instance in ms).
// Intervals are multiples of 500 ms and phases odd multiples of 250 ms, so that the first
// instance acts on the 500 ms grid, the second one between grid points and the monitor
// at the odd multiples of 125 ms: never two of them at the same virtual instant.
type c15tConfig struct {
	timeoutS, renewMs, horizonS int
	phases                      []int
	dfs                         int // deviation bound of the per-request search (-1: none)
}

func c15tConfigs(tier string) []c15tConfig {
	if tier == "thorough" {
		return []c15tConfig{
			{3, 1000, 12, []int{250, 750}, 3},
			{5, 1500, 19, []int{250, 750, 1250}, 3},
			{6, 2000, 24, []int{250, 750, 1250, 1750}, 2},
			{10, 3000, 38, []int{250, 750, 1250, 1750, 2250, 2750}, 2},
			{4, 1000, 14, []int{250, 750}, 2}, // interval below timeout/3
			{7, 2000, 26, []int{250, 750, 1250, 1750}, -1},
		}
	}
	return []c15tConfig{
		{3, 1000, 12, []int{250, 750}, 2},       // the default: interval = timeout/3
		{5, 1500, 19, []int{250, 750, 1250}, 2}, // timeout not a multiple of the interval
		{10, 3000, 38, []int{1250, 2250}, -1},
	}
}

func c15tFaults(calls [2]int, tier string) []c15tFault {
	var out []c15tFault
	runs := []int{1, 2, 3, 4, 5, 6, 8, 0}
	secs := []int{1, 2, 4, 8, 0}
	late := []int{0, 3, 5} // delayed reply alone / followed by error replies from the g-th later call on
	if tier == "thorough" {
		late = []int{0, 2, 3, 4, 5, 6, 8}
		runs = []int{1, 2, 3, 4, 5, 6, 7, 8, 9, 10, 12, 0}
		secs = []int{1, 2, 3, 4, 6, 8, 12, 0}
	}
	for v := 1; v <= 2; v++ {
		for st := 1; st <= calls[v-1]; st++ {
			for _, l := range runs {
				out = append(out, c15tFault{Victim: v, Kind: "error-reply", Start: st, Len: l})
			}
			for _, k := range []string{"cut", "reply-lost"} {
				for _, l := range secs {
					out = append(out, c15tFault{Victim: v, Kind: k, Start: st, Len: l})
				}
			}
			for _, g := range late {
				out = append(out, c15tFault{Victim: v, Kind: "delayed-reply", Start: st, Len: g})
			}
		}
	}
	return out
}

func c15ConfigGrid() []c15tScenario {
	var out []c15tScenario
	ts := []int64{0, 1, 999, 1000, 2999, 3000, 3001, 3500, 3999, 4000, 5999, 6000, 10000, 10500, 599999, 600000, 600001, 3600000}
	rs := []int64{0, 1, 999, 1000, 1001, 1166, 1167, 1333, 1334, 1999, 2000, 2001, 3333, 3334, 199999, 200000, 200001, 1200000}
	for _, a := range ts {
		for _, b := range rs {
			out = append(out, c15tScenario{Kind: "config-fix", InTimeoutMs: a, InRenewMs: b})
		}
	}
	return out
}

// runC15Ticker is called by runC15 after the BFS plans.
func runC15Ticker(t *testing.T, rep *mc.Reporter, budget *mc.Budget) {
	shard, nshards := mc.ShardOf()
	tier := mc.Tier()
	idx := 0
	for _, scn := range c15ConfigGrid() {
		idx++
		if idx%nshards != shard {
			continue
		}
		rep.Exec(scn, nil, c15ConfigFix(scn))
	}
	sigSeen := map[string]int{}
	for _, cf := range c15tConfigs(tier) {
		for pi, ph := range cf.phases {
			base := c15tScenario{Kind: "ticker", TimeoutS: cf.timeoutS, RenewMs: cf.renewMs, HorizonS: cf.horizonS, PhaseMs: ph}
			// (1) per-request fates chosen by the explorer, deviation-bounded (first phase only)
			if pi == 0 && cf.dfs >= 0 {
				idx++
				if idx%nshards == shard && !budget.Expired() {
					scn := base
					mc.RunScenario(rep, scn, cf.dfs, budget, func(ch *mc.Chooser) mc.Result { return c15tExec(t, scn, ch) })
				}
			}
			// (2) the complete dimension: every run of failing calls / every cut, starting at every call
			probe := base
			probe.Fault = &c15tFault{Victim: 1, Kind: "error-reply", Start: 1 << 30}
			r0, calls := c15tExecN(t, probe, mc.NewChooser(nil))
			if r0.Verdict == "machinery" {
				rep.Exec(probe, nil, r0)
				return
			}
			if shard == 0 {
				rep.Scenario()
			}
			for _, f := range c15tFaults(calls, tier) {
				idx++
				if idx%nshards != shard {
					continue
				}
				if budget.Expired() {
					rep.Capped("deadline reached in the ticker fault enumeration")
					return
				}
				f := f
				scn := base
				scn.Fault = &f
				res := c15tExec(t, scn, mc.NewChooser(nil))
				if res.Verdict == "violation" {
					sigSeen[res.Sig]++
					if sigSeen[res.Sig] <= 2 {
						for k := 0; k < 2; k++ {
							if r2 := c15tExec(t, scn, mc.NewChooser(nil)); r2.Verdict != res.Verdict || r2.Sig != res.Sig {
								res = mc.Result{Verdict: "machinery", Clause: fmt.Sprintf("violation not reproducible on re-run %d: first=%s now=%s/%s", k+1, res.Sig, r2.Verdict, r2.Sig), Detail: res.Detail}
								break
							}
						}
					}
				}
				rep.Exec(scn, nil, res)
			}
		}
	}
}

// replay support
func c15tReplay(t *testing.T, rep *mc.Reporter, rp *mc.Replay) bool {
	var scn c15tScenario
	if err := json.Unmarshal(rp.Scenario, &scn); err != nil || scn.Kind == "" {
		return false
	}
	if scn.Kind == "config-fix" {
		rep.Exec(scn, nil, c15ConfigFix(scn))
		return true
	}
	rep.Exec(scn, rp.Choices, c15tExec(t, scn, mc.NewChooser(rp.Choices)))
	return true
}

package cmd

import (
	"context"
	"encoding/json"
	"errors"
	"fmt"
	"os"
	"path/filepath"
	"runtime/debug"
	"sort"
	"strconv"
	"strings"
	"testing"
	"time"

	"github.com/mgtv-tech/redis-GunYu/config"
	"github.com/mgtv-tech/redis-GunYu/pkg/cluster"
	"github.com/mgtv-tech/redis-GunYu/verifshim/mc"
	"github.com/mgtv-tech/redis-GunYu/verifshim/redisd"
	"github.com/mgtv-tech/redis-GunYu/verifshim/vnet"
)

// ---------------------------------------------------------------------------
// C15 - at most one instance holds a source's leader lease at any time.
//
// Explicit-state breadth-first search. A state is an event history; it is reached by
// replaying the history on FRESH objects: one real cluster.NewRedisCluster(...).NewElection(...)
// per contender, talking through the real RedisConn / proto reader+writer to the redisd
// double, which runs the ACTUAL Lua text of the two election scripts in its
// mini-interpreter and takes its clock from the synctest bubble. Histories that reach
// an already seen canonical state are not extended.

func init() { verifChecks["C15"] = runC15 }

const (
	c15Addr = "lease:6379"
	c15Key  = "redis-gunyu/g1/input-election/10.0.0.9:6379/"
)

const (
	opCampaign = iota
	opRenew
	opResign
	opLeader
	nOps
)

const (
	outOK        = iota // request executed, reply delivered
	outLost             // request never reaches the store (connection dies before it is sent)
	outFailed           // the store answers an error without executing (connection survives)
	outReplyLost        // request executed, reply never arrives (connection dies after execution)
	nOuts
)

var (
	c15OpNames  = []string{"campaign", "renew", "resign", "leader"}
	c15OutNames = []string{"ok", "lost", "failed", "replylost"}
)

// event encoding: contender*16 + op*4 + outcome; 1000+k = let the clock advance by step k
const evSleep = 1000

var c15StepNames = []string{"sleep.ttl/3", "sleep.ttl", "sleep.ttl-1ms", "sleep.1ms"}

func c15Step(k int, ttl int) time.Duration {
	d := time.Duration(ttl) * time.Second
	switch k {
	case 0:
		return d / 3
	case 1:
		return d
	case 2:
		return d - time.Millisecond
	}
	return time.Millisecond
}

func c15EventName(e int) string {
	if e >= evSleep {
		return c15StepNames[e-evSleep]
	}
	return fmt.Sprintf("c%d.%s.%s", e/16+1, c15OpNames[(e%16)/4], c15OutNames[e%4])
}

func c15ParseEvent(s string) (int, error) {
	for k, n := range c15StepNames {
		if n == s {
			return evSleep + k, nil
		}
	}
	p := strings.Split(s, ".")
	if len(p) != 3 || len(p[0]) < 2 || p[0][0] != 'c' {
		return 0, fmt.Errorf("bad event %q", s)
	}
	var c int
	if _, err := fmt.Sscanf(p[0], "c%d", &c); err != nil || c < 1 {
		return 0, fmt.Errorf("bad event %q", s)
	}
	op, out := -1, -1
	for i, n := range c15OpNames {
		if n == p[1] {
			op = i
		}
	}
	for i, n := range c15OutNames {
		if n == p[2] {
			out = i
		}
	}
	if op < 0 || out < 0 {
		return 0, fmt.Errorf("bad event %q", s)
	}
	return (c-1)*16 + op*4 + out, nil
}

func c15Alphabet(n int, steps []int) []int {
	var ev []int
	for c := 0; c < n; c++ {
		for op := 0; op < nOps; op++ {
			for out := 0; out < nOuts; out++ {
				ev = append(ev, c*16+op*4+out)
			}
		}
	}
	for _, k := range steps {
		ev = append(ev, evSleep+k)
	}
	return ev
}

type c15Scenario struct {
	Contenders int      `json:"contenders"`
	TTLs       int      `json:"ttl_s"`
	Depth      int      `json:"depth,omitempty"`
	Events     []string `json:"events"`
}

// c15Contender is one instance: identity plus the objects its process currently holds.
// After a connection failure the objects are re-created, as a restart of
// SyncerCmd.Run does (RedisConn never reconnects by itself).
type c15Contender struct {
	id   string
	cl   cluster.Cluster
	el   cluster.Election
	conn int
	// what the instance has been told
	believes bool  // last campaign/renew answer was "leader" and it has not resigned since
	lastSucc int64 // ms, time of that answer (-1 never)
}

// lease is the reference model.
type c15Lease struct {
	holder int   // -1 none
	exp    int64 // ms
}

type c15Out struct {
	key       string
	res       *mc.Result
	machinery string
	trace     []string
	executed  int // campaign/renew requests executed by the store
	faults    int
	sleeps    int
}

func c15Connect(ctx context.Context, srv *redisd.Server, c *c15Contender, ttl int) error {
	if c.cl != nil {
		c.cl.Close()
	}
	cfg := config.RedisConfig{Addresses: []string{c15Addr}, Type: config.RedisTypeStandalone, Otype: config.RedisTypeStandalone, Version: "7.2.0"}
	cl, err := cluster.NewRedisCluster(ctx, cfg, ttl)
	if err != nil {
		return err
	}
	c.cl = cl
	c.el = cl.NewElection(ctx, c15Key, c.id)
	c.conn = srv.LastConn()
	return nil
}

// c15Run replays one history and judges every step.
func c15Run(t *testing.T, n, ttl int, events []int) (out c15Out) {
	msg := bubble(t, func() {
		vnet.Reset()
		srv := redisd.New(c15Addr)
		ctx, cancel := context.WithCancel(context.Background())
		defer cancel()
		ttlMs := int64(ttl) * 1000
		cs := make([]*c15Contender, n)
		for i := range cs {
			cs[i] = &c15Contender{id: fmt.Sprintf("10.0.0.%d:18001", i+1), lastSucc: -1}
			if err := c15Connect(ctx, srv, cs[i], ttl); err != nil {
				out.machinery = "cannot connect contender: " + err.Error()
				return
			}
		}
		defer func() {
			for _, c := range cs {
				if c.cl != nil {
					c.cl.Close()
				}
			}
		}()
		model := c15Lease{holder: -1}
		now := func() int64 { return time.Now().UnixMilli() }
		viol := func(clause, sig string, detail map[string]interface{}) {
			detail["history"] = append([]string(nil), out.trace...)
			detail["ttl_s"] = ttl
			r := mc.Violation(clause, sig, detail)
			out.res = &r
		}
		// storeLease reads the lease as the store holds it now.
		storeLease := func() (holder string, exp int64, present bool) {
			v := srv.Get(0, c15Key)
			if v == nil {
				return "", 0, false
			}
			return string(v.Str), v.ExpireAt, true
		}
		idOf := func(i int) string {
			if i < 0 {
				return ""
			}
			return cs[i].id
		}
		for step, e := range events {
			t0 := now()
			if e >= evSleep {
				time.Sleep(c15Step(e-evSleep, ttl))
				out.sleeps++
				out.trace = append(out.trace, fmt.Sprintf("%d: t=%dms %s", step, t0, c15EventName(e)))
			} else {
				ci, op, oc := e/16, (e%16)/4, e%4
				c := cs[ci]
				held := model.holder >= 0 && t0 < model.exp
				grant := !held || model.holder == ci
				executed := oc == outOK || oc == outReplyLost
				answered := oc == outOK
				// ---- arm the fault
				plan := srv.PlanRef()
				next := srv.NumReqs() + 1
				switch oc {
				case outLost:
					if !srv.KillConn(c.conn, true) {
						out.machinery = "harness: connection to kill not found"
						return
					}
				case outFailed:
					plan.FailAt = map[int]string{next: "ERR injected failure"}
				case outReplyLost:
					plan.AfterReq = func(r *redisd.Req) {
						if r.Seq == next {
							srv.KillConnLocked(r.Conn, true)
						}
					}
				}
				if oc != outOK {
					out.faults++
				}
				// ---- the call
				var role cluster.ClusterRole
				var info *cluster.RoleInfo
				var err error
				switch op {
				case opCampaign:
					role, err = c.el.Campaign(ctx)
				case opRenew:
					err = c.el.Renew(ctx)
				case opResign:
					err = c.el.Resign(ctx)
				case opLeader:
					info, err = c.el.Leader(ctx)
				}
				plan.FailAt = nil
				plan.AfterReq = nil
				// the double must have seen exactly the expected number of requests
				wantReqs := next
				if oc == outLost {
					wantReqs = next - 1
				}
				if got := srv.NumReqs(); got != wantReqs {
					out.machinery = fmt.Sprintf("harness: %s issued %d target requests, expected %d", c15EventName(e), got-next+1, wantReqs-next+1)
					return
				}
				if len(srv.MachineryErrors) > 0 {
					out.machinery = "double: " + strings.Join(srv.MachineryErrors, "; ")
					return
				}
				ans := "nil"
				if err != nil {
					ans = "error(" + err.Error() + ")"
				}
				switch op {
				case opCampaign:
					ans = role.String() + "," + ans
				case opLeader:
					if info != nil {
						ans = "address=" + info.Address + "," + ans
					}
				}
				out.trace = append(out.trace, fmt.Sprintf("%d: t=%dms %s -> %s", step, t0, c15EventName(e), ans))
				if oc == outLost || oc == outReplyLost {
					if err := c15Connect(ctx, srv, c, ttl); err != nil {
						out.machinery = "cannot reconnect contender: " + err.Error()
						return
					}
				}
				// ---- reference model
				removedOwn := false
				if executed {
					switch op {
					case opCampaign, opRenew:
						out.executed++
						if grant {
							model = c15Lease{holder: ci, exp: t0 + ttlMs}
						}
					case opResign:
						if held && model.holder == ci {
							model = c15Lease{holder: -1}
							removedOwn = true
						}
					}
				}
				_ = removedOwn
				// ---- what the instance was told
				told := false
				switch op {
				case opCampaign:
					told = err == nil && role == cluster.RoleLeader
				case opRenew:
					told = err == nil
				}
				opn := c15OpNames[op]
				det := func() map[string]interface{} {
					return map[string]interface{}{"event": c15EventName(e), "answer": ans, "lease_before": map[string]interface{}{"held": held, "holder": idOf(model.holder)},
						"caller": c.id, "time_ms": t0}
				}
				if op == opCampaign || op == opRenew {
					if !answered && told {
						viol("a lost or failed "+opn+" was reported to the caller as success", "C15:lost-call-reported-leader:"+opn, det())
						return
					}
					if answered && told && !grant {
						viol("a "+opn+" succeeded although another instance holds an unexpired lease", "C15:granted-while-held:"+opn, det())
						return
					}
					if answered && !told && grant {
						viol("a "+opn+" by the holder (or with no unexpired lease) was not answered with leadership", "C15:denied-while-free:"+opn, det())
						return
					}
					if answered && op == opRenew && !grant && !errors.Is(err, cluster.ErrNotLeader) {
						viol("a failed renewal by a non-holder is not reported as cluster.ErrNotLeader", "C15:renew-nonholder-not-cluster.ErrNotLeader", det())
						return
					}
					if answered && op == opCampaign && !grant && (err != nil || role != cluster.RoleFollower) {
						viol("a campaign against a held lease did not answer follower", "C15:campaign-held-not-follower", det())
						return
					}
					if told {
						c.believes, c.lastSucc = true, t0
					} else {
						c.believes = false
					}
				}
				if op == opResign {
					c.believes = false
				}
				if op == opLeader && answered && err == nil {
					if !held || info == nil || info.Address != idOf(model.holder) {
						viol("the leader query named an instance that does not hold an unexpired lease", "C15:leader-wrong-address", det())
						return
					}
				}
			}
			// ---- store against the reference lease
			t1 := now()
			sh, sexp, present := storeLease()
			mheld := model.holder >= 0 && t1 < model.exp
			evn := "sleep"
			if e < evSleep {
				evn = c15OpNames[(e%16)/4]
			}
			sd := map[string]interface{}{"event": c15EventName(e), "time_ms": t1, "store": map[string]interface{}{"present": present, "holder": sh, "expire_at_ms": sexp},
				"reference": map[string]interface{}{"held": mheld, "holder": idOf(model.holder), "expire_at_ms": model.exp}}
			switch {
			case present && sexp == 0:
				viol("the lease key has no expiry: its holder never ceases to be the holder", "C15:lease-without-expiry:"+evn, sd)
				return
			case present && !mheld:
				clause := "the store still holds a lease that must be gone (expired or resigned by its owner)"
				if evn == "resign" {
					clause = "resigning did not release the caller's own lease"
				}
				viol(clause, "C15:store-lease-should-be-gone:"+evn, sd)
				return
			case !present && mheld:
				clause := "the lease disappeared from the store while its holder's lease period is still running"
				if evn == "resign" {
					clause = "a resign released a lease the caller does not hold"
				}
				viol(clause, "C15:store-lease-lost:"+evn, sd)
				return
			case present && sh != idOf(model.holder):
				viol("the store's lease changed hands although an unexpired lease was held by another instance", "C15:store-holder-mismatch:"+evn, sd)
				return
			case present && sexp != model.exp:
				clause := "the lease expiry differs from one lease period after the holder's last successful campaign/renew"
				if sexp > model.exp {
					clause = "the lease outlives one lease period after its holder's last successful campaign/renew (extended by a call that must not extend it)"
				}
				viol(clause, "C15:store-expiry-mismatch:"+evn, sd)
				return
			}
			// ---- mutual exclusion among what the instances were told
			var leaders []string
			for _, c := range cs {
				if c.believes && t1 < c.lastSucc+ttlMs {
					leaders = append(leaders, c.id)
				}
			}
			if len(leaders) > 1 {
				sd["believe_leader"] = leaders
				viol("two instances were told they are leader and both lease periods are still running", "C15:two-leaders", sd)
				return
			}
		}
		// ---- canonical key of the reached state
		t1 := now()
		cap2 := 2 * ttlMs
		var sb strings.Builder
		sh, sexp, present := storeLease()
		hi := -1
		for i, c := range cs {
			if present && c.id == sh {
				hi = i
			}
		}
		rel := int64(0)
		if present {
			rel = sexp - t1
			if rel > cap2 {
				rel = cap2
			}
			if hi < 0 {
				fmt.Fprintf(&sb, "L?%s", sh)
			}
		}
		fmt.Fprintf(&sb, "L%d+%d", hi, rel)
		for _, c := range cs {
			age := cap2
			if c.lastSucc >= 0 && t1-c.lastSucc < cap2 {
				age = t1 - c.lastSucc
			}
			b := 0
			if c.believes {
				b = 1
			}
			fmt.Fprintf(&sb, "|%d@%d", b, age)
		}
		out.key = sb.String()
	})
	if msg != "" {
		out.machinery = "bubble: " + msg
	}
	return
}

func c15Result(n, ttl int, o c15Out, events int) mc.Result {
	if o.machinery != "" {
		return mc.Result{Verdict: "machinery", Clause: o.machinery, Detail: map[string]interface{}{"history": o.trace}}
	}
	if o.res != nil {
		return *o.res
	}
	// non-trivial: the store executed at least one campaign/renew AND (time passed or a call was lost/failed)
	return mc.OK(mc.Hash(fmt.Sprintf("n=%d,ttl=%d", n, ttl), o.key), o.executed > 0 && (o.sleeps > 0 || o.faults > 0), events)
}

type c15Plan struct {
	n, ttl, depth int
	steps         []int // clock steps (indices into c15StepNames)
}

func c15Plans(tier string) []c15Plan {
	if tier == "thorough" {
		return []c15Plan{
			{2, 3, 10, []int{0, 1}},
			{3, 3, 8, []int{0, 1}},
			{2, 6, 8, []int{0, 1}},
			{2, 3, 7, []int{0, 1, 2, 3}},
			{3, 3, 6, []int{0, 2, 3}},
		}
	}
	return []c15Plan{
		{2, 3, 8, []int{0, 1}},
		{3, 3, 6, []int{0, 1}},
		{2, 3, 5, []int{0, 1, 2, 3}},
	}
}

// ---- distributed level-synchronous BFS --------------------------------------
// All shards explore the same state graph level by level. The frontier of a level is
// a deterministic, sorted list; shard i expands entries i, i+n, ... and publishes the
// states it discovered in a file of the shared output directory; every shard then
// reads all files of the level and computes the same next frontier. The files are a
// barrier only (no oracle depends on wall-clock time).

type c15Entry struct {
	Key  string `json:"k"`
	Hist []int  `json:"h"`
}

type c15LevelFile struct {
	Found  []c15Entry `json:"found"`
	Capped bool       `json:"capped"`
}

func histLess(a, b []int) bool {
	for i := 0; i < len(a) && i < len(b); i++ {
		if a[i] != b[i] {
			return a[i] < b[i]
		}
	}
	return len(a) < len(b)
}

func runC15(t *testing.T, rep *mc.Reporter) {
	// every execution allocates a few MB of connection buffers while the live heap is a
	// few MB of static tables: with the default GOGC the collector runs once per execution
	gcp := 400
	if v, err := strconv.Atoi(os.Getenv("VERIF_GOGC")); err == nil && v > 0 {
		gcp = v
	}
	debug.SetGCPercent(gcp)
	shard, nshards := mc.ShardOf()
	tier := mc.Tier()
	budget := &mc.Budget{Deadline: mc.DeadlineFromEnv()}
	if rp, err := mc.LoadReplay(); err != nil {
		rep.Machinery("cannot load replay: "+err.Error(), nil)
		return
	} else if rp != nil {
		if c15rReplay(t, rep, rp) || c15tReplay(t, rep, rp) {
			return
		}
		var scn c15Scenario
		if err := json.Unmarshal(rp.Scenario, &scn); err != nil {
			rep.Machinery("bad replay scenario: "+err.Error(), nil)
			return
		}
		var ev []int
		for _, s := range scn.Events {
			e, err := c15ParseEvent(s)
			if err != nil {
				rep.Machinery(err.Error(), nil)
				return
			}
			ev = append(ev, e)
		}
		rep.Exec(scn, nil, c15Result(scn.Contenders, scn.TTLs, c15Run(t, scn.Contenders, scn.TTLs, ev), len(ev)))
		return
	}
	outdir := os.Getenv("VERIF_OUT")
	if outdir == "" {
		outdir = os.TempDir()
	}
	sigSeen := map[string]int{}
	for pi, pl := range c15Plans(tier) {
		if shard == 0 {
			rep.Scenario()
		}
		alpha := c15Alphabet(pl.n, pl.steps)
		levels := []int{1}
		// level 0: the initial state
		init := c15Run(t, pl.n, pl.ttl, nil)
		if init.machinery != "" {
			rep.Machinery(init.machinery, nil)
			return
		}
		seen := map[string]bool{init.key: true}
		frontier := []c15Entry{{Key: init.key}}
		if shard == 0 {
			rep.Count("states", 1)
		}
		stop := false
		for d := 0; d < pl.depth && !stop; d++ {
			var lf c15LevelFile
			local := map[string]int{} // key -> index in lf.Found
			for fi, fe := range frontier {
				if fi%nshards != shard {
					continue
				}
				if budget.Expired() {
					lf.Capped = true
					break
				}
				for _, e := range alpha {
					h := append(append([]int(nil), fe.Hist...), e)
					o := c15Run(t, pl.n, pl.ttl, h)
					res := c15Result(pl.n, pl.ttl, o, len(h))
					rep.Count("transitions", 1)
					names := make([]string, len(h))
					for i, x := range h {
						names[i] = c15EventName(x)
					}
					scn := c15Scenario{Contenders: pl.n, TTLs: pl.ttl, Depth: pl.depth, Events: names}
					if res.Verdict == "violation" {
						sigSeen[res.Sig]++
						if sigSeen[res.Sig] <= 2 {
							for k := 0; k < 2; k++ {
								r2 := c15Result(pl.n, pl.ttl, c15Run(t, pl.n, pl.ttl, h), len(h))
								if r2.Verdict != res.Verdict || r2.Sig != res.Sig {
									res = mc.Result{Verdict: "machinery", Clause: fmt.Sprintf("violation not reproducible on re-run %d: first=%s now=%s/%s", k+1, res.Sig, r2.Verdict, r2.Sig), Detail: res.Detail}
									break
								}
							}
						}
					}
					rep.Exec(scn, nil, res)
					if res.Verdict != "ok" {
						continue // a violating history is not extended
					}
					if seen[o.key] {
						continue
					}
					if at, ok := local[o.key]; ok {
						if histLess(h, lf.Found[at].Hist) {
							lf.Found[at].Hist = h
						}
						continue
					}
					local[o.key] = len(lf.Found)
					lf.Found = append(lf.Found, c15Entry{Key: o.key, Hist: h})
				}
			}
			// ---- publish, wait for the other shards, merge
			name := func(s int) string { return filepath.Join(outdir, fmt.Sprintf("C15.bfs.p%d.L%d.s%d.lvl", pi, d, s)) }
			b, _ := json.Marshal(lf)
			tmp := name(shard) + ".tmp"
			if err := os.WriteFile(tmp, b, 0o644); err != nil {
				rep.Machinery("cannot write level file: "+err.Error(), nil)
				return
			}
			if err := os.Rename(tmp, name(shard)); err != nil {
				rep.Machinery("cannot publish level file: "+err.Error(), nil)
				return
			}
			merged := map[string][]int{}
			for s := 0; s < nshards; s++ {
				var other c15LevelFile
				waited := time.Duration(0)
				for {
					bb, err := os.ReadFile(name(s))
					if err == nil && json.Unmarshal(bb, &other) == nil {
						break
					}
					if !budget.Deadline.IsZero() && time.Now().After(budget.Deadline.Add(30*time.Second)) {
						rep.Capped(fmt.Sprintf("gave up waiting for shard %d at level %d", s, d))
						return
					}
					time.Sleep(10 * time.Millisecond)
					waited += 10 * time.Millisecond
				}
				if other.Capped {
					stop = true
				}
				for _, f := range other.Found {
					if seen[f.Key] {
						continue
					}
					if old, ok := merged[f.Key]; !ok || histLess(f.Hist, old) {
						merged[f.Key] = f.Hist
					}
				}
			}
			frontier = frontier[:0]
			for k, h := range merged {
				seen[k] = true
				frontier = append(frontier, c15Entry{Key: k, Hist: h})
			}
			sort.Slice(frontier, func(i, j int) bool { return frontier[i].Key < frontier[j].Key })
			for fi := range frontier {
				if fi%nshards == shard {
					rep.Count("states", 1)
					rep.Count(fmt.Sprintf("plan%d_states", pi), 1)
				}
			}
			levels = append(levels, len(frontier))
			if stop {
				rep.Capped(fmt.Sprintf("deadline reached in plan %d (contenders=%d) at depth %d of %d", pi, pl.n, d+1, pl.depth))
			}
		}
		if stop {
			return
		}
		if shard == 0 {
			rep.Note(fmt.Sprintf("plan %d: contenders=%d ttl=%ds steps=%v depth=%d: new canonical states per BFS level %v", pi, pl.n, pl.ttl, pl.steps, pl.depth, levels))
		}
	}
	runC15Ticker(t, rep, budget)
	runC15Run(t, rep, budget)
}

package cmd

import (
	"context"
	"encoding/json"
	"errors"
	"fmt"
	"os"
	"path/filepath"
	"runtime/debug"
	"sort"
	"strconv"
	"strings"
	"testing"
	"testing/synctest"
	"time"

	"github.com/mgtv-tech/redis-GunYu/config"
	"github.com/mgtv-tech/redis-GunYu/pkg/cluster"
	"github.com/mgtv-tech/redis-GunYu/verifshim/mc"
	"github.com/mgtv-tech/redis-GunYu/verifshim/redisd"
	"github.com/mgtv-tech/redis-GunYu/verifshim/vnet"
)

// ---------------------------------------------------------------------------
// C15 - at most one instance holds a source's leader lease at any time.
//
// Explicit-state breadth-first search. A state is an event history; it is reached by
// replaying the history on FRESH objects: one real cluster.NewRedisCluster(...).NewElection(...)
// per contender, talking through the real RedisConn / proto reader+writer to the redisd
// double, which runs the ACTUAL Lua text of the two election scripts in its
// mini-interpreter and takes its clock from the synctest bubble. Histories that reach
// an already seen canonical state are not extended.

func init() { verifChecks["C15"] = runC15 }

const (
	c15Addr = "lease:6379"
	c15Key  = "redis-gunyu/g1/input-election/10.0.0.9:6379/"
)

const (
	opCampaign = iota
	opRenew
	opResign
	opLeader
	nOps
	opNext = nOps // the next store request of the contender's call in flight
)

const (
	outOK        = iota // request executed, reply delivered
	outLost             // request never reaches the store (connection dies before it is sent)
	outFailed           // the store answers an error without executing (connection survives)
	outReplyLost        // request executed, reply never arrives (connection dies after execution)
	outDelayed          // request executed at once, its reply arrives only after the caller's context deadline (one renew interval, ttl/3, later); the connection stays open
	nOuts
)

var (
	c15OpNames  = []string{"campaign", "renew", "resign", "leader", "next"}
	c15OutNames = []string{"ok", "lost", "failed", "replylost", "delayed"}
)

// event encoding: contender*64 + op*8 + outcome; 1000+k = let the clock advance by step k.
// op "next" = the store handles the next request of the contender's call in flight (a call that
// needs several store requests is interleaved with everything else request by request).
const evSleep = 1000

var c15StepNames = []string{"sleep.ttl/3", "sleep.ttl", "sleep.ttl-1ms", "sleep.1ms"}

func c15Step(k int, ttl int) time.Duration {
	d := time.Duration(ttl) * time.Second
	switch k {
	case 0:
		return d / 3
	case 1:
		return d
	case 2:
		return d - time.Millisecond
	}
	return time.Millisecond
}

func c15EventName(e int) string {
	if e >= evSleep {
		return c15StepNames[e-evSleep]
	}
	return fmt.Sprintf("c%d.%s.%s", e/64+1, c15OpNames[(e%64)/8], c15OutNames[e%8])
}

func c15ParseEvent(s string) (int, error) {
	for k, n := range c15StepNames {
		if n == s {
			return evSleep + k, nil
		}
	}
	p := strings.Split(s, ".")
	if len(p) != 3 || len(p[0]) < 2 || p[0][0] != 'c' {
		return 0, fmt.Errorf("bad event %q", s)
	}
	var c int
	if _, err := fmt.Sscanf(p[0], "c%d", &c); err != nil || c < 1 {
		return 0, fmt.Errorf("bad event %q", s)
	}
	op, out := -1, -1
	for i, n := range c15OpNames {
		if n == p[1] {
			op = i
		}
	}
	for i, n := range c15OutNames {
		if n == p[2] {
			out = i
		}
	}
	if op < 0 || out < 0 {
		return 0, fmt.Errorf("bad event %q", s)
	}
	return (c-1)*64 + op*8 + out, nil
}

func c15Alphabet(n int, steps []int, delayed bool) []int {
	var ev []int
	for c := 0; c < n; c++ {
		for op := 0; op <= opNext; op++ {
			for out := 0; out < nOuts; out++ {
				if out == outDelayed && !delayed {
					continue
				}
				ev = append(ev, c*64+op*8+out)
			}
		}
	}
	for _, k := range steps {
		ev = append(ev, evSleep+k)
	}
	return ev
}

type c15Scenario struct {
	Contenders int      `json:"contenders"`
	TTLs       int      `json:"ttl_s"`
	Depth      int      `json:"depth,omitempty"`
	Events     []string `json:"events"`
}

// c15Contender is one instance: identity plus the objects its process currently holds.
// After a connection failure the objects are re-created, as a restart of
// SyncerCmd.Run does (RedisConn never reconnects by itself).
type c15Contender struct {
	id   string
	cl   cluster.Cluster
	el   cluster.Election
	conn int
	// what the instance has been told
	believes bool  // last campaign/renew answer was "leader" and it has not resigned since
	lastSucc int64 // ms, time of that answer (-1 never)
	pend     *c15Pending
}

// c15Pending is an election call in flight: its next store request is parked at the double.
type c15Pending struct {
	op          int
	t0          int64    // when the call started
	pre         c15Lease // the lease at that moment
	nreq        int      // store requests delivered (or lost) so far
	fates       []int
	replies     []string
	interleaved bool // another event happened between two of its requests
	connDead    bool
	grantAt     int64 // when one of its requests installed the caller's lease (-1: none did)
	done        chan c15CallResult
}

type c15CallResult struct {
	role cluster.ClusterRole
	info *cluster.RoleInfo
	err  error
}

// lease is the reference model.
type c15Lease struct {
	holder int   // -1 none
	exp    int64 // ms
}

type c15Out struct {
	key        string
	res        *mc.Result
	machinery  string
	trace      []string
	executed   int // campaign/renew requests executed by the store
	faults     int
	sleeps     int
	pend       []bool // contenders with a call in flight in the reached state
	leaked     bool   // goroutines of the code under test stayed blocked when the history ended
	infeasible bool   // the history asks for an event that is not enabled
}

// c15StoreCommands are the commands the lease store answers like Redis does; anything else gets a Redis-style
// error (the double's default "+OK" for unknown commands is meant for opaque business commands, not for a lease
// store) - the election code then has to cope with it, which is an outcome to judge.
var c15StoreCommands = map[string]bool{"ping": true, "auth": true, "select": true, "echo": true, "info": true, "client": true, "exists": true, "type": true,
	"del": true, "unlink": true, "keys": true, "scan": true, "set": true, "setnx": true, "setex": true, "psetex": true, "get": true, "append": true,
	"incr": true, "decr": true, "incrby": true, "decrby": true, "mset": true, "expire": true, "pexpire": true, "expireat": true, "pexpireat": true,
	"persist": true, "ttl": true, "pttl": true, "rename": true, "hset": true, "hmset": true, "hsetnx": true, "hget": true, "hmget": true, "hgetall": true,
	"hlen": true, "hexists": true, "hdel": true, "hincrby": true, "script": true, "eval": true, "evalsha": true, "multi": true, "exec": true, "discard": true, "command": true}

func c15StrictStore(srv *redisd.Server) {
	srv.Extra = func(s *redisd.Server, cs *redisd.ConnState, argv [][]byte) []byte {
		name := strings.ToLower(string(argv[0]))
		if !c15StoreCommands[name] {
			return []byte("-ERR unknown command '" + name + "'\r\n")
		}
		if name == "set" && len(argv) > 3 {
			for _, a := range argv[3:] {
				if strings.EqualFold(string(a), "get") { // SET ... GET is not modelled by the double
					return []byte("-ERR syntax error\r\n")
				}
			}
		}
		return nil
	}
}

func c15Connect(ctx context.Context, srv *redisd.Server, c *c15Contender, ttl int) error {
	if c.cl != nil {
		c.cl.Close()
	}
	cfg := config.RedisConfig{Addresses: []string{c15Addr}, Type: config.RedisTypeStandalone, Otype: config.RedisTypeStandalone, Version: "7.2.0"}
	cl, err := cluster.NewRedisCluster(ctx, cfg, ttl)
	if err != nil {
		return err
	}
	c.cl = cl
	c.el = cl.NewElection(ctx, c15Key, c.id)
	c.conn = srv.LastConn()
	return nil
}

// c15Run replays one history and judges every step.
func c15Run(t *testing.T, n, ttl int, events []int) (out c15Out) {
	msg := bubble(t, func() {
		vnet.Reset()
		srv := redisd.New(c15Addr)
		c15StrictStore(srv)
		ctx, cancel := context.WithCancel(context.Background())
		defer cancel()
		ttlMs := int64(ttl) * 1000
		cs := make([]*c15Contender, n)
		for i := range cs {
			cs[i] = &c15Contender{id: fmt.Sprintf("10.0.0.%d:18001", i+1), lastSucc: -1}
			if err := c15Connect(ctx, srv, cs[i], ttl); err != nil {
				out.machinery = "cannot connect contender: " + err.Error()
				return
			}
		}
		defer func() {
			for _, c := range cs {
				if c.cl != nil {
					c.cl.Close()
				}
			}
		}()
		model := c15Lease{holder: -1}
		now := func() int64 { return time.Now().UnixMilli() }
		viol := func(clause, sig string, detail map[string]interface{}) {
			detail["history"] = append([]string(nil), out.trace...)
			detail["ttl_s"] = ttl
			r := mc.Violation(clause, sig, detail)
			out.res = &r
		}
		idOf := func(i int) string {
			if i < 0 {
				return ""
			}
			return cs[i].id
		}
		// storeLease reads the lease as the store holds it now (holder -1: none; -2: a value that is no contender's id).
		storeLease := func() (l c15Lease, raw string) {
			v := srv.Get(0, c15Key)
			if v == nil {
				return c15Lease{holder: -1}, ""
			}
			l = c15Lease{holder: -2, exp: v.ExpireAt}
			for i, c := range cs {
				if c.id == string(v.Str) {
					l.holder = i
				}
			}
			return l, string(v.Str)
		}
		effective := func(l c15Lease, t int64) c15Lease { // an expired lease is no lease
			if l.holder == -1 || (l.exp != 0 && t >= l.exp) {
				return c15Lease{holder: -1}
			}
			return l
		}
		// judgeStore compares the store with the lease states the reference allows after an event.
		judgeStore := func(allowed []c15Lease, evn, event string, strictRelease bool) bool {
			t1 := now()
			post, raw := storeLease()
			for _, a := range allowed {
				if effective(a, t1) == effective(post, t1) && !(post.holder != -1 && post.exp == 0) {
					return true
				}
			}
			ref := effective(allowed[0], t1)
			sd := map[string]interface{}{"event": event, "time_ms": t1, "store": map[string]interface{}{"present": post.holder != -1, "holder": raw, "expire_at_ms": post.exp},
				"reference": map[string]interface{}{"held": ref.holder >= 0, "holder": idOf(ref.holder), "expire_at_ms": ref.exp}, "allowed_states": len(allowed)}
			present, mheld := post.holder != -1, ref.holder >= 0
			switch {
			case present && post.exp == 0:
				viol("the lease key has no expiry: its holder never ceases to be the holder", "C15:lease-without-expiry:"+evn, sd)
			case present && !mheld:
				clause := "the store holds a lease that must not be there (expired, resigned by its owner, or granted by a call that must not grant it)"
				if evn == "resign" && strictRelease {
					clause = "resigning did not release the caller's own lease"
				}
				viol(clause, "C15:store-lease-should-be-gone:"+evn, sd)
			case !present && mheld:
				clause := "the lease disappeared from the store while its holder's lease period is still running"
				if evn == "resign" {
					clause = "a resign released a lease the caller does not hold"
				}
				viol(clause, "C15:store-lease-lost:"+evn, sd)
			case post.holder != ref.holder:
				viol("the store's lease changed hands although an unexpired lease was held by another instance", "C15:store-holder-mismatch:"+evn, sd)
			default:
				clause := "the lease expiry differs from one lease period after the holder's last successful campaign/renew"
				if post.exp > ref.exp {
					clause = "the lease outlives one lease period after its holder's last successful campaign/renew (extended by a call that must not extend it)"
				}
				viol(clause, "C15:store-expiry-mismatch:"+evn, sd)
			}
			return false
		}
		plan := srv.PlanRef()
		connect := func(c *c15Contender) error { // the connection handshake is not part of any election call
			plan.Park = false
			err := c15Connect(ctx, srv, c, ttl)
			plan.Park = true
			return err
		}
		plan.Park = true // every store REQUEST of an election call is one step of the history
		defer func() {
			// calls still in flight at the end of the history: their connection goes away
			for _, c := range cs {
				if c.pend != nil {
					srv.KillConn(c.conn, true)
				}
			}
			plan.Park = false
			synctest.Wait()
		}()

		// finish judges a completed call.
		finish := func(step int, ci int, r c15CallResult) bool {
			c := cs[ci]
			p := c.pend
			c.pend = nil
			op := p.op
			opn := c15OpNames[op]
			ans := "nil"
			if r.err != nil {
				ans = "error(" + r.err.Error() + ")"
			}
			switch op {
			case opCampaign:
				ans = r.role.String() + "," + ans
			case opLeader:
				if r.info != nil {
					ans = "address=" + r.info.Address + "," + ans
				}
			}
			out.trace = append(out.trace, fmt.Sprintf("%d: t=%dms c%d.%s returns %s (after %d store request(s))", step, now(), ci+1, opn, ans, p.nreq))
			if len(srv.MachineryErrors) > 0 {
				out.machinery = "double: " + strings.Join(srv.MachineryErrors, "; ")
				return false
			}
			if p.connDead {
				if err := connect(c); err != nil {
					out.machinery = "cannot reconnect contender: " + err.Error()
					return false
				}
			}
			told := false
			switch op {
			case opCampaign:
				told = r.err == nil && r.role == cluster.RoleLeader
			case opRenew:
				told = r.err == nil
			}
			allOK := true
			for _, f := range p.fates {
				if f != outOK {
					allOK = false
				}
			}
			t0 := p.t0
			pre := effective(p.pre, t0)
			held := pre.holder >= 0
			det := func() map[string]interface{} {
				return map[string]interface{}{"call": fmt.Sprintf("c%d.%s", ci+1, opn), "answer": ans, "store_requests": p.nreq, "lease_before": map[string]interface{}{"held": held, "holder": idOf(pre.holder)},
					"caller": c.id, "time_ms": now()}
			}
			if p.nreq == 1 || (allOK && !p.interleaved && p.nreq > 0) {
				// ---- the call was one atomic step of the history: the reference lease decides everything
				grant := !held || pre.holder == ci
				delayed := p.nreq == 1 && p.fates[0] == outDelayed // executed; the caller may have given up at its deadline or waited for its own late reply
				executed := allOK || p.fates[0] == outReplyLost || delayed
				answered := allOK
				want := pre
				if executed {
					switch op {
					case opCampaign, opRenew:
						out.executed++
						if grant {
							want = c15Lease{holder: ci, exp: t0 + ttlMs}
						}
					case opResign:
						if held && pre.holder == ci {
							want = c15Lease{holder: -1}
						}
					}
				}
				if op == opCampaign || op == opRenew {
					switch {
					case delayed && told && !grant:
						viol("a "+opn+" whose reply came late was answered with leadership although the store did not grant that request", "C15:granted-while-held:"+opn, det())
					case delayed:
					case !answered && told:
						viol("a lost or failed "+opn+" was reported to the caller as success", "C15:lost-call-reported-leader:"+opn, det())
					case answered && told && !grant:
						viol("a "+opn+" succeeded although another instance holds an unexpired lease", "C15:granted-while-held:"+opn, det())
					case answered && !told && grant:
						viol("a "+opn+" by the holder (or with no unexpired lease) was not answered with leadership", "C15:denied-while-free:"+opn, det())
					case answered && op == opRenew && !grant && !errors.Is(r.err, cluster.ErrNotLeader):
						viol("a failed renewal by a non-holder is not reported as cluster.ErrNotLeader", "C15:renew-nonholder-not-cluster.ErrNotLeader", det())
					case answered && op == opCampaign && !grant && (r.err != nil || r.role != cluster.RoleFollower):
						viol("a campaign against a held lease did not answer follower", "C15:campaign-held-not-follower", det())
					}
					if out.res != nil {
						return false
					}
				}
				if op == opLeader && answered && r.err == nil && (!held || r.info == nil || r.info.Address != idOf(pre.holder)) {
					viol("the leader query named an instance that does not hold an unexpired lease", "C15:leader-wrong-address", det())
					return false
				}
				// a call that went through undisturbed must leave exactly the reference lease; after a lost reply it is
				// unknown whether the implementation had more to do, each of its requests was judged on delivery
				if (allOK || delayed) && !judgeStore([]c15Lease{want}, opn, fmt.Sprintf("c%d.%s", ci+1, opn), true) {
					return false
				}
			} else {
				// ---- the call's store requests were interleaved with other events (or some of them failed): every
				// request was judged when it was delivered; here only what the caller was told
				if told {
					post, _ := storeLease()
					post = effective(post, now())
					if post.holder != ci {
						d := det()
						d["lease_now"] = map[string]interface{}{"held": post.holder >= 0, "holder": idOf(post.holder)}
						viol("a "+opn+" was answered with leadership although the caller does not hold an unexpired lease at that moment", "C15:told-leader-without-lease:"+opn, d)
						return false
					}
				}
			}
			if op == opCampaign || op == opRenew {
				if told {
					// the lease period the instance may rely on runs from the moment the store granted it, not from the moment the answer arrived
					c.believes, c.lastSucc = true, now()
					if p.grantAt >= 0 {
						c.lastSucc = p.grantAt
					}
				} else {
					c.believes = false
				}
			}
			if op == opResign {
				c.believes = false
			}
			model, _ = storeLease()
			return true
		}

		// deliver lets the store process (or lose) the pending request of contender ci.
		deliver := func(step int, ci int, oc int, label string) bool {
			c := cs[ci]
			p := c.pend
			t0 := now()
			if oc != outOK {
				out.faults++
			}
			next := srv.NumReqs() + 1
			switch oc {
			case outLost:
				// the connection dies with the request in flight: the store never sees it
				if !srv.KillConn(c.conn, true) {
					out.machinery = "harness: connection to kill not found"
					return false
				}
				p.connDead = true
			case outFailed:
				plan.FailAt = map[int]string{next: "ERR injected failure"}
			case outReplyLost:
				// the reply is withheld, then the connection dies (the caller runs concurrently: a reply that
				// was already pushed could be read before the connection is reset)
				plan.Hold = true
				p.connDead = true
			case outDelayed:
				plan.Hold = true
			}
			reqText := "(lost)"
			if oc != outLost {
				if srv.Step(c.conn, 1) != 1 {
					out.machinery = "harness: no parked request to deliver for " + label
					return false
				}
				if oc == outReplyLost {
					plan.Hold = false
					srv.KillConn(c.conn, true)
				}
				if oc == outDelayed {
					// the request has been executed now; its reply arrives one renew interval later, just after the caller's
					// context deadline has passed (a caller that ignores its context simply gets its own reply late)
					plan.Hold = false
					synctest.Wait()
					time.Sleep(c15Step(0, ttl))
					synctest.Wait()
					out.sleeps++
					for _, o := range cs {
						if o.pend != nil && o != c {
							o.pend.interleaved = true
						}
					}
					srv.Release(c.conn, 0)
				}
				l := srv.Log()
				last := l[len(l)-1]
				reqText = last.Name()
				p.replies = append(p.replies, last.Name()+"="+last.Reply)
			} else {
				p.replies = append(p.replies, "lost")
			}
			plan.FailAt = nil
			p.fates = append(p.fates, oc)
			p.nreq++
			synctest.Wait()
			out.trace = append(out.trace, fmt.Sprintf("%d: t=%dms %s  [store request %d of c%d.%s: %s]", step, t0, label, p.nreq, ci+1, c15OpNames[p.op], reqText))
			// ---- what this ONE request may do to the lease, whatever command it is
			pre := effective(model, t0)
			allowed := []c15Lease{pre}
			if oc == outOK || oc == outReplyLost || oc == outDelayed {
				switch p.op {
				case opCampaign, opRenew:
					if pre.holder == -1 || pre.holder == ci {
						allowed = append(allowed, c15Lease{holder: ci, exp: t0 + ttlMs})
					}
				case opResign:
					if pre.holder == ci {
						allowed = append(allowed, c15Lease{holder: -1})
					}
				}
			}
			if !judgeStore(allowed, c15OpNames[p.op], label, false) {
				return false
			}
			model, _ = storeLease()
			if (p.op == opCampaign || p.op == opRenew) && model.holder == ci && model.exp == t0+ttlMs {
				p.grantAt = t0
			}
			select {
			case r := <-p.done:
				return finish(step, ci, r)
			default:
				if srv.PeekParked(c.conn) == nil {
					out.machinery = "harness: call " + label + " neither returned nor waits for the store"
					return false
				}
			}
			return true
		}

		for step, e := range events {
			t0 := now()
			if e >= evSleep {
				time.Sleep(c15Step(e-evSleep, ttl))
				out.sleeps++
				out.trace = append(out.trace, fmt.Sprintf("%d: t=%dms %s", step, t0, c15EventName(e)))
				for _, c := range cs {
					if c.pend != nil {
						c.pend.interleaved = true
					}
				}
				if !judgeStore([]c15Lease{model}, "sleep", c15EventName(e), false) {
					return
				}
			} else {
				ci, op, oc := e/64, (e%64)/8, e%8
				c := cs[ci]
				for j, o := range cs {
					if j != ci && o.pend != nil {
						o.pend.interleaved = true
					}
				}
				if op == opNext {
					if c.pend == nil {
						out.infeasible = true
						return
					}
				} else {
					if c.pend != nil {
						out.infeasible = true
						return
					}
					p := &c15Pending{op: op, t0: t0, pre: model, grantAt: -1, done: make(chan c15CallResult, 1)}
					c.pend = p
					el := c.el
					go func() {
						// the deadline the syncer gives its election calls: one renew interval
						cctx, ccancel := context.WithTimeout(ctx, c15Step(0, ttl))
						defer ccancel()
						var r c15CallResult
						switch op {
						case opCampaign:
							r.role, r.err = el.Campaign(cctx)
						case opRenew:
							r.err = el.Renew(cctx)
						case opResign:
							r.err = el.Resign(cctx)
						case opLeader:
							r.info, r.err = el.Leader(cctx)
						}
						p.done <- r
					}()
					synctest.Wait()
					if srv.PeekParked(c.conn) == nil {
						// the call returned without asking the store anything
						select {
						case r := <-p.done:
							out.trace = append(out.trace, fmt.Sprintf("%d: t=%dms %s (no store request)", step, t0, c15EventName(e)))
							if !finish(step, ci, r) {
								return
							}
						default:
							out.machinery = "harness: call " + c15EventName(e) + " neither returned nor waits for the store"
							return
						}
						goto invariant
					}
				}
				if !deliver(step, ci, oc, c15EventName(e)) {
					return
				}
			}
		invariant:
			// ---- mutual exclusion among what the instances were told
			t1 := now()
			var leaders []string
			for _, c := range cs {
				if c.believes && t1 < c.lastSucc+ttlMs {
					leaders = append(leaders, c.id)
				}
			}
			if len(leaders) > 1 {
				viol("two instances were told they are leader and both lease periods are still running", "C15:two-leaders", map[string]interface{}{"event": c15EventName(e), "time_ms": t1, "believe_leader": leaders})
				return
			}
		}
		// ---- canonical key of the reached state
		t1 := now()
		cap2 := 2 * ttlMs
		var sb strings.Builder
		relOf := func(l c15Lease) (int, int64) {
			l = effective(l, t1)
			if l.holder == -1 {
				return -1, 0
			}
			rel := l.exp - t1
			if rel > cap2 {
				rel = cap2
			}
			return l.holder, rel
		}
		post, raw := storeLease()
		hi, rel := relOf(post)
		if hi == -2 {
			fmt.Fprintf(&sb, "L?%s", raw)
		}
		fmt.Fprintf(&sb, "L%d+%d", hi, rel)
		out.pend = make([]bool, n)
		for i, c := range cs {
			age := cap2
			if c.lastSucc >= 0 && t1-c.lastSucc < cap2 {
				age = t1 - c.lastSucc
			}
			b := 0
			if c.believes {
				b = 1
			}
			fmt.Fprintf(&sb, "|%d@%d", b, age)
			if p := c.pend; p != nil {
				// a call in flight: which one, how far, what it has been told so far, the lease it started from
				out.pend[i] = true
				ph, prel := relOf(p.pre)
				fmt.Fprintf(&sb, "~%s.%d.%v.%v.%x.L%d+%d@%d", c15OpNames[p.op], p.nreq, p.fates, p.interleaved, mc.Hash(p.replies...), ph, prel, t1-p.t0)
			}
		}
		out.key = sb.String()
	})
	if msg != "" {
		if strings.Contains(msg, "blocked goroutines remain") && out.machinery == "" && (out.key != "" || out.res != nil) {
			// the code under test left a goroutine blocked for good (e.g. on a full reply channel): a leak, neither a
			// lease violation nor a harness failure; everything judged inside the history stands
			out.leaked = true
		} else {
			out.machinery = "bubble: " + msg
		}
	}
	return
}

func c15Result(n, ttl int, o c15Out, events int) mc.Result {
	if o.machinery != "" {
		return mc.Result{Verdict: "machinery", Clause: o.machinery, Detail: map[string]interface{}{"history": o.trace}}
	}
	if o.res != nil {
		return *o.res
	}
	// non-trivial: the store executed at least one campaign/renew AND (time passed or a call was lost/failed)
	return mc.OK(mc.Hash(fmt.Sprintf("n=%d,ttl=%d", n, ttl), o.key), o.executed > 0 && (o.sleeps > 0 || o.faults > 0), events)
}

type c15Plan struct {
	n, ttl, depth int
	steps         []int // clock steps (indices into c15StepNames)
	delayed       bool  // the alphabet also has the fate "reply delayed beyond the caller's deadline"
}

func c15Plans(tier string) []c15Plan {
	if tier == "thorough" {
		return []c15Plan{
			{2, 3, 10, []int{0, 1}, false},
			{3, 3, 8, []int{0, 1}, false},
			{2, 6, 8, []int{0, 1}, false},
			{2, 3, 7, []int{0, 1, 2, 3}, false},
			{3, 3, 6, []int{0, 2, 3}, false},
			{2, 3, 8, []int{0, 1}, true},
			{3, 3, 6, []int{0, 1}, true},
		}
	}
	return []c15Plan{
		{2, 3, 8, []int{0, 1}, false},
		{3, 3, 6, []int{0, 1}, false},
		{2, 3, 5, []int{0, 1, 2, 3}, false},
		{2, 3, 6, []int{0, 1}, true},
		{3, 3, 4, []int{0, 1}, true},
	}
}

// ---- distributed level-synchronous BFS --------------------------------------
// All shards explore the same state graph level by level. The frontier of a level is
// a deterministic, sorted list; shard i expands entries i, i+n, ... and publishes the
// states it discovered in a file of the shared output directory; every shard then
// reads all files of the level and computes the same next frontier. The files are a
// barrier only (no oracle depends on wall-clock time).

// c15PendFromKey tells which contenders have a call in flight in a canonical state.
func c15PendFromKey(key string, n int) []bool {
	out := make([]bool, n)
	seg := strings.Split(key, "|")
	for i := 0; i < n && i+1 < len(seg); i++ {
		out[i] = strings.Contains(seg[i+1], "~")
	}
	return out
}

type c15Entry struct {
	Key  string `json:"k"`
	Hist []int  `json:"h"`
}

type c15LevelFile struct {
	Found  []c15Entry `json:"found"`
	Capped bool       `json:"capped"`
}

func histLess(a, b []int) bool {
	for i := 0; i < len(a) && i < len(b); i++ {
		if a[i] != b[i] {
			return a[i] < b[i]
		}
	}
	return len(a) < len(b)
}

func runC15(t *testing.T, rep *mc.Reporter) {
	// every execution allocates a few MB of connection buffers while the live heap is a
	// few MB of static tables: with the default GOGC the collector runs once per execution
	gcp := 400
	if v, err := strconv.Atoi(os.Getenv("VERIF_GOGC")); err == nil && v > 0 {
		gcp = v
	}
	debug.SetGCPercent(gcp)
	shard, nshards := mc.ShardOf()
	tier := mc.Tier()
	budget := &mc.Budget{Deadline: mc.DeadlineFromEnv()}
	if rp, err := mc.LoadReplay(); err != nil {
		rep.Machinery("cannot load replay: "+err.Error(), nil)
		return
	} else if rp != nil {
		if c15rReplay(t, rep, rp) || c15tReplay(t, rep, rp) {
			return
		}
		var scn c15Scenario
		if err := json.Unmarshal(rp.Scenario, &scn); err != nil {
			rep.Machinery("bad replay scenario: "+err.Error(), nil)
			return
		}
		var ev []int
		for _, s := range scn.Events {
			e, err := c15ParseEvent(s)
			if err != nil {
				rep.Machinery(err.Error(), nil)
				return
			}
			ev = append(ev, e)
		}
		o := c15Run(t, scn.Contenders, scn.TTLs, ev)
		if o.infeasible && o.machinery == "" {
			o.machinery = "replay: the history asks for an event that is not enabled on this tree (a call with several store requests exists only on the tree the history was found on)"
		}
		rep.Exec(scn, nil, c15Result(scn.Contenders, scn.TTLs, o, len(ev)))
		return
	}
	outdir := os.Getenv("VERIF_OUT")
	if outdir == "" {
		outdir = os.TempDir()
	}
	sigSeen := map[string]int{}
	for pi, pl := range c15Plans(tier) {
		if shard == 0 {
			rep.Scenario()
		}
		alpha := c15Alphabet(pl.n, pl.steps, pl.delayed)
		levels := []int{1}
		// level 0: the initial state
		init := c15Run(t, pl.n, pl.ttl, nil)
		if init.machinery != "" {
			rep.Machinery(init.machinery, nil)
			return
		}
		seen := map[string]bool{init.key: true}
		frontier := []c15Entry{{Key: init.key}}
		if shard == 0 {
			rep.Count("states", 1)
		}
		stop := false
		for d := 0; d < pl.depth && !stop; d++ {
			var lf c15LevelFile
			local := map[string]int{} // key -> index in lf.Found
			for fi, fe := range frontier {
				if fi%nshards != shard {
					continue
				}
				if budget.Expired() {
					lf.Capped = true
					break
				}
				pend := c15PendFromKey(fe.Key, pl.n)
				for _, e := range alpha {
					if e < evSleep && ((e%64)/8 == opNext) != pend[e/64] {
						continue // not enabled: "next" needs a call in flight, a new call needs none
					}
					h := append(append([]int(nil), fe.Hist...), e)
					o := c15Run(t, pl.n, pl.ttl, h)
					if o.infeasible && o.machinery == "" {
						o.machinery = "harness: event " + c15EventName(e) + " was expected to be enabled"
					}
					res := c15Result(pl.n, pl.ttl, o, len(h))
					rep.Count("transitions", 1)
					if e < evSleep && (e%64)/8 == opNext {
						rep.Count("later_requests_of_a_call", 1)
					}
					names := make([]string, len(h))
					for i, x := range h {
						names[i] = c15EventName(x)
					}
					scn := c15Scenario{Contenders: pl.n, TTLs: pl.ttl, Depth: pl.depth, Events: names}
					if res.Verdict == "violation" {
						sigSeen[res.Sig]++
						if sigSeen[res.Sig] <= 2 {
							for k := 0; k < 2; k++ {
								r2 := c15Result(pl.n, pl.ttl, c15Run(t, pl.n, pl.ttl, h), len(h))
								if r2.Verdict != res.Verdict || r2.Sig != res.Sig {
									res = mc.Result{Verdict: "machinery", Clause: fmt.Sprintf("violation not reproducible on re-run %d: first=%s now=%s/%s", k+1, res.Sig, r2.Verdict, r2.Sig), Detail: res.Detail}
									break
								}
							}
						}
					}
					rep.Exec(scn, nil, res)
					if res.Verdict != "ok" {
						continue // a violating history is not extended
					}
					if seen[o.key] {
						continue
					}
					if at, ok := local[o.key]; ok {
						if histLess(h, lf.Found[at].Hist) {
							lf.Found[at].Hist = h
						}
						continue
					}
					local[o.key] = len(lf.Found)
					lf.Found = append(lf.Found, c15Entry{Key: o.key, Hist: h})
				}
			}
			// ---- publish, wait for the other shards, merge
			name := func(s int) string { return filepath.Join(outdir, fmt.Sprintf("C15.bfs.p%d.L%d.s%d.lvl", pi, d, s)) }
			b, _ := json.Marshal(lf)
			tmp := name(shard) + ".tmp"
			if err := os.WriteFile(tmp, b, 0o644); err != nil {
				rep.Machinery("cannot write level file: "+err.Error(), nil)
				return
			}
			if err := os.Rename(tmp, name(shard)); err != nil {
				rep.Machinery("cannot publish level file: "+err.Error(), nil)
				return
			}
			merged := map[string][]int{}
			for s := 0; s < nshards; s++ {
				var other c15LevelFile
				waited := time.Duration(0)
				for {
					bb, err := os.ReadFile(name(s))
					if err == nil && json.Unmarshal(bb, &other) == nil {
						break
					}
					if !budget.Deadline.IsZero() && time.Now().After(budget.Deadline.Add(30*time.Second)) {
						rep.Capped(fmt.Sprintf("gave up waiting for shard %d at level %d", s, d))
						return
					}
					time.Sleep(10 * time.Millisecond)
					waited += 10 * time.Millisecond
				}
				if other.Capped {
					stop = true
				}
				for _, f := range other.Found {
					if seen[f.Key] {
						continue
					}
					if old, ok := merged[f.Key]; !ok || histLess(f.Hist, old) {
						merged[f.Key] = f.Hist
					}
				}
			}
			frontier = frontier[:0]
			for k, h := range merged {
				seen[k] = true
				frontier = append(frontier, c15Entry{Key: k, Hist: h})
			}
			sort.Slice(frontier, func(i, j int) bool { return frontier[i].Key < frontier[j].Key })
			for fi := range frontier {
				if fi%nshards == shard {
					rep.Count("states", 1)
					rep.Count(fmt.Sprintf("plan%d_states", pi), 1)
				}
			}
			levels = append(levels, len(frontier))
			if stop {
				rep.Capped(fmt.Sprintf("deadline reached in plan %d (contenders=%d) at depth %d of %d", pi, pl.n, d+1, pl.depth))
			}
		}
		if stop {
			return
		}
		if shard == 0 {
			rep.Note(fmt.Sprintf("plan %d: contenders=%d ttl=%ds steps=%v delayed-fate=%v depth=%d: new canonical states per BFS level %v", pi, pl.n, pl.ttl, pl.steps, pl.delayed, pl.depth, levels))
		}
	}
	runC15Ticker(t, rep, budget)
	runC15Run(t, rep, budget)
}

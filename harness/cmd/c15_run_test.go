package cmd

import (
	"encoding/json"
	"fmt"
	"os"
	"sort"
	"strings"
	"sync"
	"testing"
	"time"

	"github.com/mgtv-tech/redis-GunYu/config"
	pb "github.com/mgtv-tech/redis-GunYu/pkg/api/golang"
	"github.com/mgtv-tech/redis-GunYu/pkg/cluster"
	"github.com/mgtv-tech/redis-GunYu/pkg/redis"
	"github.com/mgtv-tech/redis-GunYu/syncer"
	"github.com/mgtv-tech/redis-GunYu/verifshim/mc"
	"github.com/mgtv-tech/redis-GunYu/verifshim/redisd"
	"github.com/mgtv-tech/redis-GunYu/verifshim/vnet"
)

// ---------------------------------------------------------------------------
// C15, third harness: TWO SyncerCmd instances run the REAL SyncerCmd.run():
// syncerConfigs, `ttl := int(LeaseTimeout/time.Second)`, NewRedisCluster on the input
// Redis, Register, runCluster with its lease key / contender id derivation, role check,
// clusterCampaign, Leader(), clusterTicker, `sy.Stop(); WgWait(); Resign` ordering, role
// reset and restart sleeps. Only the syncer's data path is a stub (the
// `call:syncer.NewSyncer=verifNewSyncer` transform on cmd/syncer.go): RunLeader / RunFollower
// block until Stop and take 500 ms to wind down. The store is the redisd double on the
// bubble clock (it is the source Redis: role check and lease live there).
//
// Server.ListenPeer is a process-wide setting: each instance's driver sets it right before
// it calls run(); run() reads it within the same virtual instant and the two instances
// never act at the same instant (500 ms grid / odd multiples of 250 ms).

const (
	c15rSource  = "source:6379"
	c15rSource2 = "source2:6379"
	c15rTarget  = "target:6379"
	c15rTarget2 = "target2:6379"
	c15rGroup   = "grp1"
)

type c15rScenario struct {
	Kind      string      `json:"kind"` // "run"
	TimeoutMs int         `json:"lease_timeout_ms"`
	RenewMs   int         `json:"lease_renew_interval_ms"`
	HorizonS  int         `json:"horizon_s"`
	PhaseMs   int         `json:"phase_ms"`
	StopMs    int         `json:"syncer_stop_ms"`   // how long the (stubbed) leader syncer needs to stop: the stop-then-resign path takes that long
	Fault     *c15tFault  `json:"fault,omitempty"`  // on the election calls of one instance for one shard (fault.shard): error-reply (run of calls), cut / reply-lost (one call, the connection dies; the instance restarts and reconnects)
	Refuse    *c15rRefuse `json:"refuse,omitempty"` // address[0] of the input refuses NEW connections for a while (established ones are not affected)
}

// c15rRefuse: the first configured input address does not accept new connections.
type c15rRefuse struct {
	FromConn int  `json:"from_connection,omitempty"` // beginning with the n-th connection attempt to address[0] (1-based, whole run) ...
	AtFault  bool `json:"at_fault,omitempty"`        // ... or from the instant the call fault hits
	ForMs    int  `json:"for_ms"`                    // -1: that one attempt only; 0: for good; else this long
}

const c15rShards = 2

type c15rInst struct {
	id       string
	sc       *SyncerCmd
	active   [c15rShards]bool  // its stub RunLeader for that shard is running (until it has wound down)
	stopping [c15rShards]bool  // Stop was called on it: the instance has given up that leadership and is winding the syncer down
	lastOK   [c15rShards]int64 // ms of the last delivered ":1" of the campaign script for that shard's lease
	calls    [c15rShards]int
	store    [c15rShards]int // which store its election calls for that shard went to last (-1 none yet)
}

type c15rHarness struct {
	stopFor time.Duration
	mu      sync.Mutex
	inst    []*c15rInst
	addrs   []string
	start   time.Time
	trace   []string
	onCh    func(where string) // invariant check, called with mu held
	ending  bool
}

func (h *c15rHarness) ms() int64 { return time.Since(h.start).Milliseconds() }

// c15rGate stands in front of a store double and may refuse new connections.
type c15rGate struct {
	inner    *redisd.Server
	refusing func() bool
}

func (g *c15rGate) Accept(c *vnet.Conn) (vnet.Handler, error) {
	if g.refusing != nil && g.refusing() {
		return nil, fmt.Errorf("connection refused")
	}
	return g.inner.Accept(c)
}

// c15rStub is the syncer with a stubbed data path.
type c15rStub struct {
	h     *c15rHarness
	shard int
	stop  chan struct{}
	once  sync.Once
}

func (s *c15rStub) owner() int {
	for i, in := range s.h.inst {
		in.sc.mutex.RLock()
		for _, si := range in.sc.syncers {
			if si.sync == syncer.Syncer(s) {
				in.sc.mutex.RUnlock()
				return i
			}
		}
		in.sc.mutex.RUnlock()
	}
	return -1
}

func (s *c15rStub) RunLeader() error {
	i := s.owner()
	h := s.h
	h.mu.Lock()
	if i >= 0 && s.shard >= 0 {
		h.inst[i].active[s.shard] = true
		h.trace = append(h.trace, fmt.Sprintf("t=%dms i%d shard%d leader syncer RUNS", h.ms(), i+1, s.shard+1))
	} else {
		h.trace = append(h.trace, "leader syncer of an unknown instance / shard")
	}
	h.onCh("leader syncer started")
	h.mu.Unlock()
	<-s.stop
	h.mu.Lock()
	if i >= 0 && s.shard >= 0 {
		h.inst[i].stopping[s.shard] = true
	}
	h.mu.Unlock()
	if h.stopFor > 0 {
		time.Sleep(h.stopFor) // the data path takes its time to wind down
	}
	h.mu.Lock()
	if i >= 0 && s.shard >= 0 {
		h.inst[i].active[s.shard], h.inst[i].stopping[s.shard] = false, false
		h.trace = append(h.trace, fmt.Sprintf("t=%dms i%d shard%d leader syncer has stopped", h.ms(), i+1, s.shard+1))
	}
	h.mu.Unlock()
	return nil
}

func (s *c15rStub) RunFollower(leader *cluster.RoleInfo) error {
	<-s.stop
	return nil
}
func (s *c15rStub) Stop()                     { s.once.Do(func() { close(s.stop) }) }
func (s *c15rStub) RunIds() []string          { return nil }
func (s *c15rStub) IsLeader() bool            { return false }
func (s *c15rStub) Pause()                    {}
func (s *c15rStub) DelRunId()                 {}
func (s *c15rStub) Resume()                   {}
func (s *c15rStub) State() syncer.SyncerState { return syncer.SyncerStateRun }
func (s *c15rStub) Role() syncer.SyncerRole   { return 0 }
func (s *c15rStub) TransactionMode() bool     { return false }
func (s *c15rStub) ServiceReplica(req *pb.SyncRequest, stream pb.ApiService_SyncServer) error {
	return nil
}

// c15rExec runs one execution; it also returns the election calls per instance and shard and the number of
// connections address[0] accepted.
func c15rExec(t *testing.T, scn c15rScenario) (mc.Result, [2][c15rShards]int, int) {
	var calls [2][c15rShards]int
	accepted0 := 0
	var res *mc.Result
	var machinery string
	found := map[string]mc.Result{}
	h := &c15rHarness{addrs: []string{c15rSource, c15rSource2}}
	events := 0
	msg := bubble(t, func() {
		vnet.Reset()
		// a standalone input with two addresses: two independent source shards. The registry and the leases of
		// ALL shards live in the Redis NewRedisCluster connects to for a standalone configuration: address[0].
		stores := []*redisd.Server{redisd.New(c15rSource), redisd.New(c15rSource2)}
		for _, st := range stores {
			c15StrictStore(st)
		}
		h.start = time.Now()
		h.stopFor = time.Duration(scn.StopMs) * time.Millisecond
		// ---- address[0] may refuse new connections
		attempts0, refuseOn, refuseUntil, refuseOnce := 0, false, int64(0), false
		gate := &c15rGate{inner: stores[0]}
		gate.refusing = func() bool { // called from the dialling instance's goroutine
			h.mu.Lock()
			defer h.mu.Unlock()
			attempts0++
			if r := scn.Refuse; r != nil && !refuseOn && r.FromConn > 0 && attempts0 == r.FromConn {
				refuseOn = true
				switch {
				case r.ForMs < 0:
					refuseOnce = true
				case r.ForMs > 0:
					refuseUntil = h.ms() + int64(r.ForMs)
				}
			}
			no := refuseOn && (refuseOnce || refuseUntil == 0 || h.ms() < refuseUntil)
			if refuseOnce {
				refuseOn, refuseOnce = false, false
			}
			if no {
				h.trace = append(h.trace, fmt.Sprintf("t=%dms address[0] REFUSES a new connection", h.ms()))
			} else {
				accepted0++
			}
			return no
		}
		vnet.Register(c15rSource, gate)
		// ---- process configuration, as the YAML loader + fix() would leave it
		cc := &config.ClusterConfig{GroupName: c15rGroup, LeaseTimeout: time.Duration(scn.TimeoutMs) * time.Millisecond, LeaseRenewInterval: time.Duration(scn.RenewMs) * time.Millisecond}
		if err := config.VerifClusterFix(cc); err != nil {
			machinery = "config fix: " + err.Error()
			return
		}
		mkCfg := func(addr ...string) *config.RedisConfig {
			rc := config.RedisConfig{Addresses: addr, Type: config.RedisTypeStandalone, Otype: config.RedisTypeStandalone, Version: "7.2.0",
				ClusterOptions: &config.RedisClusterOptions{HandleMoveErr: true, HandleAskErr: true}}
			if err := redis.FixTopology(&rc); err != nil {
				panic(err)
			}
			return &rc
		}
		tr := true
		g := config.GetSyncerConfig()
		g.Input = &config.InputConfig{Redis: mkCfg(c15rSource, c15rSource2)}
		g.Output = &config.OutputConfig{Redis: mkCfg(c15rTarget, c15rTarget2), Replay: config.ReplayConfig{ResumeFromBreakPoint: &tr, ReplayTransaction: &tr}}
		g.Channel = &config.ChannelConfig{Type: "memory"}
		g.Cluster = cc
		g.Server.GracefullStopTimeout = 5 * time.Second
		defer func() { g.Cluster = nil }()

		wantTTL := fmt.Sprintf("%d", scn.TimeoutMs/1000) // one lease period = the whole seconds of leaseTimeout
		ttlMs := int64(scn.TimeoutMs/1000) * 1000
		var wantKey [c15rShards]string
		for sh, a := range h.addrs {
			wantKey[sh] = fmt.Sprintf("/redis-gunyu/%s/input-election/%s/", c15rGroup, a)
		}
		shardOfKey := func(k string) int {
			for sh := range wantKey {
				if wantKey[sh] == k {
					return sh
				}
			}
			return -1
		}

		h.inst = []*c15rInst{{id: "10.0.0.1:18001"}, {id: "10.0.0.2:18001"}}
		for _, in := range h.inst {
			in.sc = NewSyncerCmd()
			for sh := 0; sh < c15rShards; sh++ {
				in.lastOK[sh], in.store[sh] = -1, -1
			}
		}
		prev := verifNewSyncer
		verifNewSyncer = func(cfg syncer.SyncerConfig) syncer.Syncer {
			sh := -1
			for i, a := range h.addrs {
				if cfg.Input.Address() == a {
					sh = i
				}
			}
			return &c15rStub{h: h, shard: sh, stop: make(chan struct{})}
		}
		defer func() { verifNewSyncer = prev }()

		viol := func(clause, sig string, d map[string]interface{}) {
			if _, ok := found[sig]; ok {
				return
			}
			d["lease_timeout"], d["renew_interval"] = cc.LeaseTimeout.String(), cc.LeaseRenewInterval.String()
			h.trace = append(h.trace, fmt.Sprintf("t=%dms VIOLATION %s", h.ms(), sig))
			found[sig] = mc.Violation(clause, sig, d)
		}
		h.onCh = func(where string) {
			if h.ending { // the horizon is over: the processes are being shut down, election calls are no longer tracked
				return
			}
			now := h.ms()
			for sh := 0; sh < c15rShards; sh++ {
				n := 0
				for i, in := range h.inst {
					if !in.active[sh] {
						continue
					}
					within := in.lastOK[sh] >= 0 && now < in.lastOK[sh]+ttlMs // its lease period is still running
					if within {
						n++
					}
					// a syncer that is being stopped is no longer acting on leadership; how long the stop takes is not the lease's business
					if !within && !in.stopping[sh] {
						viol("an instance keeps its leader syncer running although its lease period has run out", "C15:run:leader-past-lease",
							map[string]interface{}{"instance": i + 1, "shard": h.addrs[sh], "now_ms": now, "last_success_ms": in.lastOK[sh], "at": where})
					}
				}
				if n > 1 {
					viol("two instances run a leader syncer for the same source shard while both lease periods are running", "C15:run:two-active-leaders", map[string]interface{}{"shard": h.addrs[sh], "now_ms": now, "at": where})
				}
				// contenders of one shard must meet in ONE store
				st := -1
				for i, in := range h.inst {
					if in.store[sh] < 0 {
						continue
					}
					if st >= 0 && in.store[sh] != st {
						viol("two instances contend for the lease of one source shard in DIFFERENT stores: each of them is granted the lease", "C15:run:split-lease-stores",
							map[string]interface{}{"shard": h.addrs[sh], "instance": i + 1, "its_store": h.addrs[in.store[sh]], "other_store": h.addrs[st], "at": where})
					}
					st = in.store[sh]
				}
			}
		}
		storeCheck := func(where string) { // harness goroutine only (takes the server locks)
			type held struct {
				id    string
				store int
			}
			var leases [c15rShards][]held
			var strange []string
			for d, st := range stores {
				for _, k := range st.Keys(0) {
					if !strings.Contains(k, "election") {
						continue
					}
					sh := shardOfKey(k)
					if sh < 0 {
						strange = append(strange, h.addrs[d]+": "+k)
						continue
					}
					if v := st.Get(0, k); v != nil {
						leases[sh] = append(leases[sh], held{string(v.Str), d})
					}
				}
			}
			h.mu.Lock()
			defer h.mu.Unlock()
			if len(strange) > 0 {
				viol("the lease of a source shard is kept under another key than /redis-gunyu/<group>/input-election/<shard master>/ : contenders of one shard may not meet", "C15:run:unexpected-lease-key",
					map[string]interface{}{"keys": strange, "at": where})
			}
			for sh := 0; sh < c15rShards; sh++ {
				if len(leases[sh]) > 1 {
					viol("unexpired leases for one source shard exist in more than one store at the same time", "C15:run:split-lease-stores",
						map[string]interface{}{"shard": h.addrs[sh], "leases": fmt.Sprintf("%v", leases[sh]), "at": where})
				}
				for i, in := range h.inst {
					if !(in.active[sh] && in.lastOK[sh] >= 0 && h.ms() < in.lastOK[sh]+ttlMs) {
						continue
					}
					mine := false
					for _, l := range leases[sh] {
						if l.id == in.id {
							mine = true
						}
					}
					if !mine {
						viol("an instance runs its leader syncer, its lease period has not run out, but no store holds the shard's lease under its own id: it resigned before the syncer had stopped, somebody removed / took its lease, or it contends under another id",
							"C15:run:leader-without-lease", map[string]interface{}{"instance": i + 1, "its_id": in.id, "shard": h.addrs[sh], "leases": fmt.Sprintf("%v", leases[sh]), "now_ms": h.ms(), "at": where})
					}
				}
			}
			h.onCh(where)
		}

		// ---- faults on election calls, identified by the contender id in ARGV[1] and the lease key
		ending := false
		for d := range stores {
			d := d
			srv := stores[d]
			plan := srv.PlanRef()
			plan.OnRequest = func(r *redisd.Req) {
				script, isEval := c15EvalScript(srv, r)
				if !isEval || len(r.Argv) < 6 {
					return
				}
				who := -1
				for i, in := range h.inst {
					if string(r.Argv[4]) == in.id {
						who = i
					}
				}
				sh := shardOfKey(string(r.Argv[3]))
				h.mu.Lock()
				end := ending
				if who < 0 && !end {
					viol("an election call carries a contender id that is not the instance's Server.ListenPeer", "C15:run:unexpected-contender-id", map[string]interface{}{"id": string(r.Argv[4])})
				}
				isCampaign := strings.Contains(script, "EXPIRE")
				if who >= 0 && !end && isCampaign && string(r.Argv[5]) != wantTTL {
					viol("the lease period handed to the store differs from the whole seconds of leaseTimeout", "C15:run:store-ttl", map[string]interface{}{"ttl_argument": string(r.Argv[5]), "expected_s": wantTTL})
				}
				if who >= 0 && !end && sh < 0 {
					viol("the lease of a source shard is kept under another key than /redis-gunyu/<group>/input-election/<shard master>/ : contenders of one shard may not meet", "C15:run:unexpected-lease-key",
						map[string]interface{}{"key": string(r.Argv[3])})
				}
				c := 0
				if who >= 0 && sh < 0 && !end {
					events++
				}
				if who >= 0 && sh >= 0 && !end {
					in := h.inst[who]
					in.store[sh] = d
					in.calls[sh]++
					n := in.calls[sh]
					if f := scn.Fault; f != nil && who == f.Victim-1 && sh == f.Shard {
						switch f.Kind {
						case "error-reply":
							if n >= f.Start && (f.Len == 0 || n < f.Start+f.Len) {
								c = 1
							}
						case "cut":
							if n == f.Start {
								c = 3
							}
						case "reply-lost":
							if n == f.Start {
								c = 2
							}
						}
						if c != 0 && n == f.Start && scn.Refuse != nil && scn.Refuse.AtFault && !refuseOn {
							refuseOn = true
							if scn.Refuse.ForMs > 0 {
								refuseUntil = h.ms() + int64(scn.Refuse.ForMs)
							}
						}
					}
					kind := "campaign/renew"
					if !isCampaign {
						kind = "resign"
					}
					h.trace = append(h.trace, fmt.Sprintf("t=%dms i%d shard%d %s @%s -> %s", h.ms(), who+1, sh+1, kind, h.addrs[d], []string{"delivered", "error reply (not executed)", "executed, reply lost, connection dead", "never reaches the store, connection dead"}[c]))
					events++
				}
				h.mu.Unlock()
				if who < 0 || sh < 0 || end {
					return
				}
				seq := r.Seq
				if c == 1 || c == 3 {
					if plan.FailAt == nil {
						plan.FailAt = map[int]string{}
					}
					plan.FailAt[seq] = "ERR injected failure"
				}
				plan.AfterReq = func(r2 *redisd.Req) {
					if r2.Seq != seq {
						return
					}
					plan.AfterReq = nil
					if c == 2 || c == 3 {
						srv.KillConnLocked(r2.Conn, true)
						return
					}
					if isCampaign && r2.Executed && !r2.Failed && strings.HasPrefix(r2.Reply, ":1") {
						h.mu.Lock()
						h.inst[who].lastOK[sh] = h.ms()
						h.mu.Unlock()
					}
				}
			}
		}

		// ---- the two processes
		var wg sync.WaitGroup
		drive := func(i int, phase time.Duration) {
			defer wg.Done()
			time.Sleep(phase)
			in := h.inst[i]
			for !in.sc.waitCloser.IsClosed() {
				h.mu.Lock()
				config.GetSyncerConfig().Server.ListenPeer = in.id
				h.mu.Unlock()
				err := in.sc.run()
				h.mu.Lock()
				es := "nil"
				if err != nil {
					es = strings.ReplaceAll(err.Error(), "\n", " | ")
					if len(es) > 160 {
						es = es[:160]
					}
				}
				h.trace = append(h.trace, fmt.Sprintf("t=%dms i%d run() returned: %s", h.ms(), i+1, es))
				h.mu.Unlock()
				in.sc.waitCloser.Sleep(2 * time.Second) // SyncerCmd.Run waits 2 s before the next run()
			}
		}
		wg.Add(2)
		go drive(0, 0)
		go drive(1, time.Duration(scn.PhaseMs)*time.Millisecond)
		horizon := time.Duration(scn.HorizonS) * time.Second
		time.Sleep(125 * time.Millisecond)
		for time.Since(h.start) < horizon {
			storeCheck("sample")
			time.Sleep(250 * time.Millisecond)
		}
		h.mu.Lock()
		ending = true
		h.ending = true
		h.mu.Unlock()
		for _, in := range h.inst {
			in.sc.waitCloser.Close(nil)
		}
		wg.Wait()
		calls = [2][c15rShards]int{h.inst[0].calls, h.inst[1].calls}
		if events == 0 && scn.Refuse == nil {
			machinery = "harness: the stores never received an election call (the real run() did not get as far as a campaign)"
		}
		for _, sig := range []string{"C15:run:split-lease-stores", "C15:run:two-active-leaders", "C15:run:leader-without-lease", "C15:run:leader-past-lease", "C15:run:unexpected-lease-key", "C15:run:unexpected-contender-id", "C15:run:store-ttl"} {
			if r, ok := found[sig]; ok && res == nil {
				var all []string
				for k := range found {
					all = append(all, k)
				}
				sort.Strings(all)
				r.Detail.(map[string]interface{})["all_clauses_broken"] = all
				r.Detail.(map[string]interface{})["trace"] = append([]string(nil), h.trace...)
				res = &r
			}
		}
		for _, st := range stores {
			if len(st.MachineryErrors) > 0 {
				machinery = "double: " + strings.Join(st.MachineryErrors, "; ")
			}
		}
	})
	if msg != "" {
		machinery = "bubble: " + msg
	}
	if os.Getenv("VERIF_TRACE") != "" {
		fmt.Fprintln(os.Stderr, strings.Join(h.trace, "\n"))
	}
	if machinery != "" {
		return mc.Result{Verdict: "machinery", Clause: machinery, Detail: h.trace}, calls, accepted0
	}
	if res != nil {
		return *res, calls, accepted0
	}
	// the two shard loops of one instance act at the same instants: the order of their lines is not part of the observation
	tr := append([]string(nil), h.trace...)
	sort.Strings(tr)
	return mc.OK(mc.Hash(tr...), scn.Fault != nil || scn.Refuse != nil, events), calls, accepted0
}

type c15rConfig struct {
	timeoutMs, renewMs, horizonS int
	phases                       []int
	stops                        []int // how long the stubbed leader syncer needs to stop (ms)
}

// Stop durations: 0 / 500 ms, "the resign lands 100 ms before the holder's own lease runs out" (lease period - interval - 100 ms
// after the failing renewal tick) and "300 ms after it" (the other instance's campaign tick, phase 250 ms, lies in between).
// All are multiples of 100 ms, the other instance moves on odd multiples of 50 ms, the monitor on odd multiples of 25 ms.
func c15rConfigs(tier string) []c15rConfig {
	if tier == "thorough" {
		return []c15rConfig{
			{3000, 1000, 16, []int{250, 750}, []int{0, 500, 1900, 2300}},
			{3500, 1000, 16, []int{250, 750}, []int{0, 500, 1900, 2300}}, // sub-second part: the store gets 3 s
			{5000, 1500, 22, []int{250, 750, 1250}, []int{500, 3400, 3800}},
			{10000, 3000, 38, []int{250, 1250, 2250}, []int{500, 6900, 7300}},
		}
	}
	return []c15rConfig{
		{3000, 1000, 12, []int{250}, []int{500, 1900, 2300}},
		{3500, 1000, 12, []int{750}, []int{0, 1900}},
	}
}

// c15rCase is one element of the fault enumeration of the real-run family.
type c15rCase struct {
	fault  *c15tFault
	refuse *c15rRefuse
}

func c15rCases(calls [2][c15rShards]int, accepted0 int, tier string) []c15rCase {
	var out []c15rCase
	runs := []int{2, 0}
	refuse := []int{2000, 0}
	if tier == "thorough" {
		runs = []int{1, 2, 3, 4, 6, 0}
		refuse = []int{-1, 2000, 4000, 0}
	}
	// (1) election-call faults of one instance for one shard's lease
	for v := 1; v <= 2; v++ {
		for sh := 0; sh < c15rShards; sh++ {
			for st := 1; st <= calls[v-1][sh]; st++ {
				for _, l := range runs {
					if sh > 0 && tier != "thorough" && l != 2 {
						continue // quick: the second shard only with the short error run
					}
					out = append(out, c15rCase{fault: &c15tFault{Victim: v, Shard: sh, Kind: "error-reply", Start: st, Len: l}})
				}
				if sh > 0 && tier != "thorough" {
					continue
				}
				for _, k := range []string{"cut", "reply-lost"} {
					out = append(out, c15rCase{fault: &c15tFault{Victim: v, Shard: sh, Kind: k, Start: st}})
					// (3) ... and from that instant address[0] takes no new connections: the client rebuild after the restart meets it
					for _, ms := range refuse {
						if ms < 0 {
							continue
						}
						out = append(out, c15rCase{fault: &c15tFault{Victim: v, Shard: sh, Kind: k, Start: st}, refuse: &c15rRefuse{AtFault: true, ForMs: ms}})
					}
				}
			}
		}
	}
	// (2) address[0] refuses new connections from its n-th connection attempt on: that one attempt / for 2 s / for good
	for n := 1; n <= accepted0; n++ {
		for _, ms := range []int{-1, 2000, 0} {
			out = append(out, c15rCase{refuse: &c15rRefuse{FromConn: n, ForMs: ms}})
		}
	}
	return out
}

// runC15Run is called by runC15 after the ticker part.
func runC15Run(t *testing.T, rep *mc.Reporter, budget *mc.Budget) {
	shard, nshards := mc.ShardOf()
	tier := mc.Tier()
	idx := 0
	sigSeen := map[string]int{}
	for _, cf := range c15rConfigs(tier) {
		for pi := 0; pi < len(cf.phases)*len(cf.stops); pi++ {
			ph, st := cf.phases[pi%len(cf.phases)], cf.stops[pi/len(cf.phases)]
			base := c15rScenario{Kind: "run", TimeoutMs: cf.timeoutMs, RenewMs: cf.renewMs, HorizonS: cf.horizonS, PhaseMs: ph, StopMs: st}
			r0, calls, acc0 := c15rExec(t, base)
			if r0.Verdict == "machinery" {
				rep.Exec(base, nil, r0)
				return
			}
			if shard == 0 {
				rep.Scenario()
				rep.Exec(base, nil, r0)
			}
			for _, cs := range c15rCases(calls, acc0, tier) {
				idx++
				if idx%nshards != shard {
					continue
				}
				if budget.Expired() {
					rep.Capped("deadline reached in the real-run fault enumeration")
					return
				}
				scn := base
				scn.Fault, scn.Refuse = cs.fault, cs.refuse
				res, _, _ := c15rExec(t, scn)
				if res.Verdict == "violation" {
					// The two shard loops of ONE instance act at the same virtual instants on real goroutines; which of them gets
					// how far before a failing role check closes the whole run is decided by the Go scheduler. A violation is
					// reported only if it comes up again (same clause) in one of up to 6 re-runs; otherwise it is counted.
					sigSeen[res.Sig]++
					confirmed := sigSeen[res.Sig] > 2
					for k := 0; k < 6 && !confirmed; k++ {
						r2, _, _ := c15rExec(t, scn)
						if r2.Verdict == "machinery" {
							res = r2
							confirmed = true
						} else if r2.Verdict == res.Verdict && r2.Sig == res.Sig {
							confirmed = true
						}
					}
					if !confirmed {
						rep.Count("run_violations_not_confirmed_on_rerun", 1)
						rep.Note("real-run family: a violation (" + res.Sig + ") did not come up again in 6 re-runs of the same scenario (scheduler-dependent interleaving of the two shard loops of one instance); not reported")
						sigSeen[res.Sig]--
						res = mc.OK(0, false, 0)
					}
				}
				rep.Exec(scn, nil, res)
			}
		}
	}
}

func c15rReplay(t *testing.T, rep *mc.Reporter, rp *mc.Replay) bool {
	var scn c15rScenario
	if err := json.Unmarshal(rp.Scenario, &scn); err != nil || scn.Kind != "run" {
		return false
	}
	res, _, _ := c15rExec(t, scn)
	rep.Exec(scn, nil, res)
	return true
}


// c15EvalScript: the script text of an election request. An EVALSHA of a script the store has cached is the
// same call as the EVAL of its text (a tool may send either); an EVALSHA the store answers NOSCRIPT executes
// nothing and is no election request.
func c15EvalScript(srv *redisd.Server, r *redisd.Req) (string, bool) {
	if len(r.Argv) < 2 {
		return "", false
	}
	switch r.Name() {
	case "eval":
		return string(r.Argv[1]), true
	case "evalsha":
		return srv.ScriptOfLocked(string(r.Argv[1]))
	}
	return "", false
}

package cmd

import (
	"encoding/json"
	"fmt"
	"os"
	"sort"
	"strings"
	"sync"
	"testing"
	"time"

	"github.com/mgtv-tech/redis-GunYu/config"
	pb "github.com/mgtv-tech/redis-GunYu/pkg/api/golang"
	"github.com/mgtv-tech/redis-GunYu/pkg/cluster"
	"github.com/mgtv-tech/redis-GunYu/pkg/redis"
	"github.com/mgtv-tech/redis-GunYu/syncer"
	"github.com/mgtv-tech/redis-GunYu/verifshim/mc"
	"github.com/mgtv-tech/redis-GunYu/verifshim/redisd"
	"github.com/mgtv-tech/redis-GunYu/verifshim/vnet"
)

// ---------------------------------------------------------------------------
// C15, third harness: TWO SyncerCmd instances run the REAL SyncerCmd.run():
// syncerConfigs, `ttl := int(LeaseTimeout/time.Second)`, NewRedisCluster on the input
// Redis, Register, runCluster with its lease key / contender id derivation, role check,
// clusterCampaign, Leader(), clusterTicker, `sy.Stop(); WgWait(); Resign` ordering, role
// reset and restart sleeps. Only the syncer's data path is a stub (the
// `call:syncer.NewSyncer=verifNewSyncer` transform on cmd/syncer.go): RunLeader / RunFollower
// block until Stop and take 500 ms to wind down. The store is the redisd double on the
// bubble clock (it is the source Redis: role check and lease live there).
//
// Server.ListenPeer is a process-wide setting: each instance's driver sets it right before
// it calls run(); run() reads it within the same virtual instant and the two instances
// never act at the same instant (500 ms grid / odd multiples of 250 ms).

const (
	c15rSource = "source:6379"
	c15rTarget = "target:6379"
	c15rGroup  = "grp1"
)

type c15rScenario struct {
	Kind      string     `json:"kind"` // "run"
	TimeoutMs int        `json:"lease_timeout_ms"`
	RenewMs   int        `json:"lease_renew_interval_ms"`
	HorizonS  int        `json:"horizon_s"`
	PhaseMs   int        `json:"phase_ms"`
	StopMs    int        `json:"syncer_stop_ms"`  // how long the (stubbed) leader syncer needs to stop: the stop-then-resign path takes that long
	Fault     *c15tFault `json:"fault,omitempty"` // kinds: error-reply (run of calls), cut / reply-lost (one call, the connection dies; the instance restarts and reconnects)
}

type c15rInst struct {
	id       string
	sc       *SyncerCmd
	active   bool  // its stub RunLeader is running (until it has wound down)
	stopping bool  // Stop was called on it: the instance has given up leadership and is winding the syncer down
	lastOK   int64 // ms of the last delivered ":1" of the campaign script
	calls    int
}

type c15rHarness struct {
	stopFor time.Duration
	mu      sync.Mutex
	inst    []*c15rInst
	start   time.Time
	trace   []string
	onCh    func(where string) // invariant check, called with mu held
	ending  bool
}

func (h *c15rHarness) ms() int64 { return time.Since(h.start).Milliseconds() }

// c15rStub is the syncer with a stubbed data path.
type c15rStub struct {
	h    *c15rHarness
	stop chan struct{}
	once sync.Once
}

func (s *c15rStub) owner() int {
	for i, in := range s.h.inst {
		in.sc.mutex.RLock()
		for _, si := range in.sc.syncers {
			if si.sync == syncer.Syncer(s) {
				in.sc.mutex.RUnlock()
				return i
			}
		}
		in.sc.mutex.RUnlock()
	}
	return -1
}

func (s *c15rStub) RunLeader() error {
	i := s.owner()
	h := s.h
	h.mu.Lock()
	if i >= 0 {
		h.inst[i].active = true
		h.trace = append(h.trace, fmt.Sprintf("t=%dms i%d leader syncer RUNS", h.ms(), i+1))
	} else {
		h.trace = append(h.trace, "leader syncer of an unknown instance")
	}
	h.onCh("leader syncer started")
	h.mu.Unlock()
	<-s.stop
	h.mu.Lock()
	if i >= 0 {
		h.inst[i].stopping = true
	}
	h.mu.Unlock()
	if h.stopFor > 0 {
		time.Sleep(h.stopFor) // the data path takes its time to wind down
	}
	h.mu.Lock()
	if i >= 0 {
		h.inst[i].active, h.inst[i].stopping = false, false
		h.trace = append(h.trace, fmt.Sprintf("t=%dms i%d leader syncer has stopped", h.ms(), i+1))
	}
	h.mu.Unlock()
	return nil
}

func (s *c15rStub) RunFollower(leader *cluster.RoleInfo) error {
	<-s.stop
	return nil
}
func (s *c15rStub) Stop()                     { s.once.Do(func() { close(s.stop) }) }
func (s *c15rStub) RunIds() []string          { return nil }
func (s *c15rStub) IsLeader() bool            { return false }
func (s *c15rStub) Pause()                    {}
func (s *c15rStub) DelRunId()                 {}
func (s *c15rStub) Resume()                   {}
func (s *c15rStub) State() syncer.SyncerState { return syncer.SyncerStateRun }
func (s *c15rStub) Role() syncer.SyncerRole   { return 0 }
func (s *c15rStub) TransactionMode() bool     { return false }
func (s *c15rStub) ServiceReplica(req *pb.SyncRequest, stream pb.ApiService_SyncServer) error {
	return nil
}

func c15rExec(t *testing.T, scn c15rScenario) (mc.Result, [2]int) {
	var calls [2]int
	var res *mc.Result
	var machinery string
	found := map[string]mc.Result{}
	h := &c15rHarness{}
	events := 0
	msg := bubble(t, func() {
		vnet.Reset()
		srv := redisd.New(c15rSource)
		c15StrictStore(srv)
		h.start = time.Now()
		h.stopFor = time.Duration(scn.StopMs) * time.Millisecond
		// ---- process configuration, as the YAML loader + fix() would leave it
		cc := &config.ClusterConfig{GroupName: c15rGroup, LeaseTimeout: time.Duration(scn.TimeoutMs) * time.Millisecond, LeaseRenewInterval: time.Duration(scn.RenewMs) * time.Millisecond}
		if err := config.VerifClusterFix(cc); err != nil {
			machinery = "config fix: " + err.Error()
			return
		}
		mkCfg := func(addr string) *config.RedisConfig {
			rc := config.RedisConfig{Addresses: []string{addr}, Type: config.RedisTypeStandalone, Otype: config.RedisTypeStandalone, Version: "7.2.0",
				ClusterOptions: &config.RedisClusterOptions{HandleMoveErr: true, HandleAskErr: true}}
			if err := redis.FixTopology(&rc); err != nil {
				panic(err)
			}
			return &rc
		}
		tr := true
		g := config.GetSyncerConfig()
		g.Input = &config.InputConfig{Redis: mkCfg(c15rSource)}
		g.Output = &config.OutputConfig{Redis: mkCfg(c15rTarget), Replay: config.ReplayConfig{ResumeFromBreakPoint: &tr, ReplayTransaction: &tr}}
		g.Channel = &config.ChannelConfig{Type: "memory"}
		g.Cluster = cc
		g.Server.GracefullStopTimeout = 5 * time.Second
		defer func() { g.Cluster = nil }()

		wantTTL := fmt.Sprintf("%d", scn.TimeoutMs/1000) // one lease period = the whole seconds of leaseTimeout
		ttlMs := int64(scn.TimeoutMs/1000) * 1000
		wantKey := fmt.Sprintf("/redis-gunyu/%s/input-election/%s/", c15rGroup, c15rSource)

		h.inst = []*c15rInst{{id: "10.0.0.1:18001", lastOK: -1}, {id: "10.0.0.2:18001", lastOK: -1}}
		for _, in := range h.inst {
			in.sc = NewSyncerCmd()
		}
		prev := verifNewSyncer
		verifNewSyncer = func(cfg syncer.SyncerConfig) syncer.Syncer { return &c15rStub{h: h, stop: make(chan struct{})} }
		defer func() { verifNewSyncer = prev }()

		viol := func(clause, sig string, d map[string]interface{}) {
			if _, ok := found[sig]; ok {
				return
			}
			d["lease_timeout"], d["renew_interval"] = cc.LeaseTimeout.String(), cc.LeaseRenewInterval.String()
			h.trace = append(h.trace, fmt.Sprintf("t=%dms VIOLATION %s", h.ms(), sig))
			found[sig] = mc.Violation(clause, sig, d)
		}
		// deferred store reads (the hooks run under the server lock)
		h.onCh = func(where string) {
			if h.ending { // the horizon is over: the processes are being shut down, election calls are no longer tracked
				return
			}
			now := h.ms()
			n := 0
			for i, in := range h.inst {
				if !in.active {
					continue
				}
				within := in.lastOK >= 0 && now < in.lastOK+ttlMs // its lease period is still running
				if within {
					n++
				}
				// a syncer that is being stopped is no longer acting on leadership; how long the stop takes is not the lease's business
				if !within && !in.stopping {
					viol("an instance keeps its leader syncer running although its lease period has run out", "C15:run:leader-past-lease",
						map[string]interface{}{"instance": i + 1, "now_ms": now, "last_success_ms": in.lastOK, "at": where})
				}
			}
			if n > 1 {
				viol("two instances run a leader syncer for the same source while both lease periods are running", "C15:run:two-active-leaders", map[string]interface{}{"now_ms": now, "at": where})
			}
		}
		storeCheck := func(where string) { // harness goroutine only (takes the server lock)
			keys := srv.Keys(0)
			var leases []string
			for _, k := range keys {
				if strings.Contains(k, "election") {
					leases = append(leases, k)
				}
			}
			h.mu.Lock()
			defer h.mu.Unlock()
			for _, k := range leases {
				if k != wantKey {
					viol("the lease of the source shard is kept under another key than /redis-gunyu/<group>/input-election/<shard master>/ : contenders of one shard may not meet", "C15:run:unexpected-lease-key",
						map[string]interface{}{"key": k, "expected": wantKey, "at": where})
				}
			}
			if len(leases) > 1 {
				viol("more than one lease key exists for one source shard", "C15:run:unexpected-lease-key", map[string]interface{}{"keys": leases, "at": where})
			}
			holder := ""
			if v := srv.Get(0, wantKey); v != nil {
				holder = string(v.Str)
			}
			for i, in := range h.inst {
				if in.active && in.lastOK >= 0 && h.ms() < in.lastOK+ttlMs && holder != in.id {
					viol("an instance runs its leader syncer, its lease period has not run out, but the store's lease is not held under its own id: it resigned before the syncer had stopped, somebody removed / took its lease, or it contends under another id",
						"C15:run:leader-without-lease", map[string]interface{}{"instance": i + 1, "its_id": in.id, "lease_holder": holder, "now_ms": h.ms(), "at": where})
				}
			}
			h.onCh(where)
		}

		// ---- faults on election calls, identified by the contender id in ARGV[1]
		ending := false
		plan := srv.PlanRef()
		plan.OnRequest = func(r *redisd.Req) {
			if r.Name() != "eval" || len(r.Argv) < 6 {
				return
			}
			who := -1
			for i, in := range h.inst {
				if string(r.Argv[4]) == in.id {
					who = i
				}
			}
			h.mu.Lock()
			end := ending
			if who < 0 && !end {
				viol("an election call carries a contender id that is not the instance's Server.ListenPeer", "C15:run:unexpected-contender-id", map[string]interface{}{"id": string(r.Argv[4])})
			}
			isCampaign := strings.Contains(string(r.Argv[1]), "EXPIRE")
			if who >= 0 && !end && isCampaign && string(r.Argv[5]) != wantTTL {
				viol("the lease period handed to the store differs from the whole seconds of leaseTimeout", "C15:run:store-ttl", map[string]interface{}{"ttl_argument": string(r.Argv[5]), "expected_s": wantTTL})
			}
			if who >= 0 && !end && string(r.Argv[3]) != wantKey {
				viol("the lease of the source shard is kept under another key than /redis-gunyu/<group>/input-election/<shard master>/ : contenders of one shard may not meet", "C15:run:unexpected-lease-key",
					map[string]interface{}{"key": string(r.Argv[3]), "expected": wantKey})
			}
			c := 0
			if who >= 0 && !end {
				h.inst[who].calls++
				n := h.inst[who].calls
				if f := scn.Fault; f != nil && who == f.Victim-1 {
					switch f.Kind {
					case "error-reply":
						if n >= f.Start && (f.Len == 0 || n < f.Start+f.Len) {
							c = 1
						}
					case "cut":
						if n == f.Start {
							c = 3
						}
					case "reply-lost":
						if n == f.Start {
							c = 2
						}
					}
				}
				kind := "campaign/renew"
				if !isCampaign {
					kind = "resign"
				}
				h.trace = append(h.trace, fmt.Sprintf("t=%dms i%d %s -> %s", h.ms(), who+1, kind, []string{"delivered", "error reply (not executed)", "executed, reply lost, connection dead", "never reaches the store, connection dead"}[c]))
				events++
			}
			h.mu.Unlock()
			if who < 0 || end {
				return
			}
			seq := r.Seq
			if c == 1 || c == 3 {
				if plan.FailAt == nil {
					plan.FailAt = map[int]string{}
				}
				plan.FailAt[seq] = "ERR injected failure"
			}
			plan.AfterReq = func(r2 *redisd.Req) {
				if r2.Seq != seq {
					return
				}
				plan.AfterReq = nil
				if c == 2 || c == 3 {
					srv.KillConnLocked(r2.Conn, true)
					return
				}
				if isCampaign && r2.Executed && !r2.Failed && strings.HasPrefix(r2.Reply, ":1") {
					h.mu.Lock()
					h.inst[who].lastOK = h.ms()
					h.mu.Unlock()
				}
			}
		}

		// ---- the two processes
		var wg sync.WaitGroup
		drive := func(i int, phase time.Duration) {
			defer wg.Done()
			time.Sleep(phase)
			in := h.inst[i]
			for !in.sc.waitCloser.IsClosed() {
				h.mu.Lock()
				config.GetSyncerConfig().Server.ListenPeer = in.id
				h.mu.Unlock()
				err := in.sc.run()
				h.mu.Lock()
				es := "nil"
				if err != nil {
					es = strings.ReplaceAll(err.Error(), "\n", " | ")
					if len(es) > 160 {
						es = es[:160]
					}
				}
				h.trace = append(h.trace, fmt.Sprintf("t=%dms i%d run() returned: %s", h.ms(), i+1, es))
				h.mu.Unlock()
				in.sc.waitCloser.Sleep(2 * time.Second) // SyncerCmd.Run waits 2 s before the next run()
			}
		}
		wg.Add(2)
		go drive(0, 0)
		go drive(1, time.Duration(scn.PhaseMs)*time.Millisecond)
		horizon := time.Duration(scn.HorizonS) * time.Second
		time.Sleep(125 * time.Millisecond)
		for time.Since(h.start) < horizon {
			storeCheck("sample")
			time.Sleep(250 * time.Millisecond)
		}
		h.mu.Lock()
		ending = true
		h.ending = true
		h.mu.Unlock()
		for _, in := range h.inst {
			in.sc.waitCloser.Close(nil)
		}
		wg.Wait()
		calls = [2]int{h.inst[0].calls, h.inst[1].calls}
		if events == 0 {
			machinery = "harness: the store never received an election call (the real run() did not get as far as a campaign)"
		}
		for _, sig := range []string{"C15:run:two-active-leaders", "C15:run:leader-without-lease", "C15:run:leader-past-lease", "C15:run:unexpected-lease-key", "C15:run:unexpected-contender-id", "C15:run:store-ttl"} {
			if r, ok := found[sig]; ok && res == nil {
				var all []string
				for k := range found {
					all = append(all, k)
				}
				sort.Strings(all)
				r.Detail.(map[string]interface{})["all_clauses_broken"] = all
				r.Detail.(map[string]interface{})["trace"] = append([]string(nil), h.trace...)
				res = &r
			}
		}
		if len(srv.MachineryErrors) > 0 {
			machinery = "double: " + strings.Join(srv.MachineryErrors, "; ")
		}
	})
	if msg != "" {
		machinery = "bubble: " + msg
	}
	if os.Getenv("VERIF_TRACE") != "" {
		fmt.Fprintln(os.Stderr, strings.Join(h.trace, "\n"))
	}
	if machinery != "" {
		return mc.Result{Verdict: "machinery", Clause: machinery, Detail: h.trace}, calls
	}
	if res != nil {
		return *res, calls
	}
	return mc.OK(mc.Hash(h.trace...), scn.Fault != nil, events), calls
}

type c15rConfig struct {
	timeoutMs, renewMs, horizonS int
	phases                       []int
	stops                        []int // how long the stubbed leader syncer needs to stop (ms)
}

// Stop durations: 0 / 500 ms, "the resign lands 100 ms before the holder's own lease runs out" (lease period - interval - 100 ms
// after the failing renewal tick) and "300 ms after it" (the other instance's campaign tick, phase 250 ms, lies in between).
// All are multiples of 100 ms, the other instance moves on odd multiples of 50 ms, the monitor on odd multiples of 25 ms.
func c15rConfigs(tier string) []c15rConfig {
	if tier == "thorough" {
		return []c15rConfig{
			{3000, 1000, 16, []int{250, 750}, []int{0, 500, 1900, 2300}},
			{3500, 1000, 16, []int{250, 750}, []int{0, 500, 1900, 2300}}, // sub-second part: the store gets 3 s
			{5000, 1500, 22, []int{250, 750, 1250}, []int{500, 3400, 3800}},
			{10000, 3000, 38, []int{250, 1250, 2250}, []int{500, 6900, 7300}},
		}
	}
	return []c15rConfig{
		{3000, 1000, 12, []int{250}, []int{500, 1900, 2300}},
		{3500, 1000, 12, []int{750}, []int{0, 1900}},
	}
}

func c15rFaults(calls [2]int, tier string) []c15tFault {
	var out []c15tFault
	runs := []int{2, 0}
	if tier == "thorough" {
		runs = []int{1, 2, 3, 4, 6, 0}
	}
	for v := 1; v <= 2; v++ {
		for st := 1; st <= calls[v-1]; st++ {
			for _, l := range runs {
				out = append(out, c15tFault{Victim: v, Kind: "error-reply", Start: st, Len: l})
			}
			out = append(out, c15tFault{Victim: v, Kind: "cut", Start: st}, c15tFault{Victim: v, Kind: "reply-lost", Start: st})
		}
	}
	return out
}

// runC15Run is called by runC15 after the ticker part.
func runC15Run(t *testing.T, rep *mc.Reporter, budget *mc.Budget) {
	shard, nshards := mc.ShardOf()
	tier := mc.Tier()
	idx := 0
	sigSeen := map[string]int{}
	for _, cf := range c15rConfigs(tier) {
		for pi := 0; pi < len(cf.phases)*len(cf.stops); pi++ {
			ph, st := cf.phases[pi%len(cf.phases)], cf.stops[pi/len(cf.phases)]
			base := c15rScenario{Kind: "run", TimeoutMs: cf.timeoutMs, RenewMs: cf.renewMs, HorizonS: cf.horizonS, PhaseMs: ph, StopMs: st}
			r0, calls := c15rExec(t, base)
			if r0.Verdict == "machinery" {
				rep.Exec(base, nil, r0)
				return
			}
			if shard == 0 {
				rep.Scenario()
				rep.Exec(base, nil, r0)
			}
			for _, f := range c15rFaults(calls, tier) {
				idx++
				if idx%nshards != shard {
					continue
				}
				if budget.Expired() {
					rep.Capped("deadline reached in the real-run fault enumeration")
					return
				}
				f := f
				scn := base
				scn.Fault = &f
				res, _ := c15rExec(t, scn)
				if res.Verdict == "violation" {
					sigSeen[res.Sig]++
					if sigSeen[res.Sig] <= 2 {
						for k := 0; k < 2; k++ {
							if r2, _ := c15rExec(t, scn); r2.Verdict != res.Verdict || r2.Sig != res.Sig {
								res = mc.Result{Verdict: "machinery", Clause: fmt.Sprintf("violation not reproducible on re-run %d: first=%s now=%s/%s", k+1, res.Sig, r2.Verdict, r2.Sig), Detail: res.Detail}
								break
							}
						}
					}
				}
				rep.Exec(scn, nil, res)
			}
		}
	}
}

func c15rReplay(t *testing.T, rep *mc.Reporter, rp *mc.Replay) bool {
	var scn c15rScenario
	if err := json.Unmarshal(rp.Scenario, &scn); err != nil || scn.Kind != "run" {
		return false
	}
	res, _ := c15rExec(t, scn)
	rep.Exec(scn, nil, res)
	return true
}

package cmd

import (
	"context"
	"fmt"
	"os"
	"strconv"
	"strings"
	"testing"
	"time"

	"github.com/mgtv-tech/redis-GunYu/config"
	"github.com/mgtv-tech/redis-GunYu/pkg/redis/checkpoint"
	"github.com/mgtv-tech/redis-GunYu/pkg/redis/client"
	"github.com/mgtv-tech/redis-GunYu/syncer"
	"github.com/mgtv-tech/redis-GunYu/verifshim/mc"
	"github.com/mgtv-tech/redis-GunYu/verifshim/redisd"
	"github.com/mgtv-tech/redis-GunYu/verifshim/vnet"
)

// ---------------------------------------------------------------------------
// C17 (d): switching the bidirectional recovery format. The namespace the index
// points to holds its recovery state either in "latest" form (sync mode: one record
// per slot) or in "frontier" form (pipeline/parallel: frontier snapshot + commit
// journal). syncer.resolveBisyncCheckpointNameWithClient migrates it when the
// configured replay mode belongs to the other family (seed a new namespace, repoint
// the index, retire the old one). All bookkeeping lives in db0 here (one visiting
// order), every crash prefix is enumerated.

type c17bScenario struct {
	Label    string   `json:"label"`
	Op       string   `json:"op"` // always "mode-switch"
	Format   string   `json:"format"`
	ModeMark string   `json:"mode_mark"` // mode recorded in the namespace ("" = legacy namespace without a mark)
	Desired  string   `json:"desired"`
	StateID  string   `json:"state_id"` // id the stored state was written under
	IDs      []string `json:"ids"`
	RootOff  int64    `json:"root_offset"`
	RecOff   int64    `json:"record_offset"`         // latest record end offset / frontier snapshot offset
	Journal  int      `json:"journal"`               // commit records after the frontier snapshot (each +100)
	Gap      bool     `json:"gap,omitempty"`         // the first journal record is missing
	NoSnap   bool     `json:"no_snapshot,omitempty"` // frontier form without a frontier snapshot yet (early run): the journal starts at unit 1
	CrashAt  int      `json:"crash_at"`
}

const c17bNS = checkpoint.BisyncCheckpointKeyPrefix + ":0123456789abcdef01234567"

func (scn c17bScenario) want() int64 {
	// what bisyncStartPoint's rules give for the constructed state
	p := int64(-1)
	switch {
	case scn.Format == "root-only":
	case scn.Format == "frontier" && scn.NoSnap:
		if !scn.Gap { // a journal that does not start at unit 1 has no contiguous prefix: root fallback
			p = scn.RecOff + int64(100*scn.Journal)
		}
	case scn.Format == "frontier":
		p = scn.RecOff
		if !scn.Gap {
			p += int64(100 * scn.Journal)
		}
	default:
		p = scn.RecOff
	}
	if scn.RootOff > p {
		p = scn.RootOff
	}
	return p
}

type c17bObs struct {
	machinery string
	R         int
	crashed   bool
	opErr     string
	after     c17Pos
	opLog     []string
	recLog    []string
	dump      string
	writes    int
	newName   string
	refused   string // the mode switch was refused with this error (target untouched); o.after is then a start in the namespace's own mode
}

func c17bOutputCfg(name, runID string, mode config.ReplayMode) syncer.RedisOutputConfig {
	c := c17OutputCfg(name, runID)
	c.BisyncEnabled = true
	c.ReplayMode = mode
	c.CanTransaction = true
	return c
}

func c17bExec(t *testing.T, scn c17bScenario) (o c17bObs) {
	msg := bubble(t, func() {
		vnet.Reset()
		tgt := redisd.New(c17Target)
		ctx, cancel := context.WithCancel(context.Background())
		defer cancel()
		outCfg := c17RedisCfg(c17Target)
		// ---- initial state, written with the repository's own encoders (all in db0)
		{
			cli, err := client.NewRedis(outCfg)
			if err != nil {
				o.machinery = "populate: " + err.Error()
				return
			}
			fail := func(err error) bool {
				if err != nil && o.machinery == "" {
					o.machinery = "populate: " + err.Error()
				}
				return err != nil
			}
			if fail(checkpoint.SetCheckpointHash(cli, scn.StateID, c17bNS)) ||
				fail(checkpoint.SetCheckpoint(cli, &checkpoint.CheckpointInfo{Key: c17bNS, RunId: scn.StateID, Offset: scn.RootOff, Version: config.Version})) {
				return
			}
			if scn.ModeMark != "" && fail(checkpoint.SaveBisyncNamespaceMode(cli, c17bNS, checkpoint.BisyncMode(scn.ModeMark))) {
				return
			}
			tag := checkpoint.BisyncSlotTag(0)
			mt := time.Now().UnixNano()
			switch scn.Format {
			case "latest":
				rec := &checkpoint.BisyncCommitRecord{Key: checkpoint.BisyncLatestCheckpointKey(c17bNS, tag), RecordType: "latest", Version: config.Version, RunID: scn.StateID,
					SyncerID: "s1", UnitSeq: 7, StartOffset: scn.RecOff - 40, EndOffset: scn.RecOff, Slot: 0, Digest: "d", MTime: mt}
				_, err := cli.Do("hset", append([]interface{}{rec.Key}, rec.HashArgs()...)...)
				if fail(err) {
					return
				}
			case "frontier":
				base := int64(7)
				if scn.NoSnap {
					base = 0
				} else if fail(checkpoint.SaveBisyncFrontierSnapshot(cli, checkpoint.BisyncFrontierKey(c17bNS), &checkpoint.BisyncFrontierSnapshot{Version: config.Version, RunID: scn.StateID, UnitSeq: 7, Offset: scn.RecOff, MTime: mt})) {
					return
				}
				for j := 1; j <= scn.Journal; j++ {
					if scn.Gap && j == 1 {
						continue
					}
					seq := base + int64(j)
					rec := &checkpoint.BisyncCommitRecord{Key: checkpoint.BisyncCommitRecordKey(c17bNS, tag, seq), RecordType: "commit", Version: config.Version, RunID: scn.StateID,
						SyncerID: "s1", UnitSeq: seq, StartOffset: scn.RecOff + int64(100*(j-1)), EndOffset: scn.RecOff + int64(100*j), Slot: 0, Digest: "d", MTime: mt + int64(j)}
					if _, err := cli.Do("hset", append([]interface{}{rec.Key}, rec.HashArgs()...)...); fail(err) {
						return
					}
					if _, err := cli.Do("zadd", checkpoint.BisyncCommitIndexKey(c17bNS, tag), strconv.FormatInt(seq, 10), rec.Key); fail(err) {
						return
					}
				}
			}
			cli.Close()
		}
		time.Sleep(time.Second)
		// ---- the operation: what newOutput runs first when bidirectional sync is on
		seq0 := tgt.NumReqs()
		if scn.CrashAt >= 0 {
			tgt.PlanRef().CrashAfter = seq0 + scn.CrashAt
		}
		func() {
			cli, err := client.NewRedis(outCfg)
			if err != nil {
				o.opErr = err.Error()
				return
			}
			defer cli.Close()
			name, err := syncer.VerifResolveBisyncCheckpointName(cli, outCfg, scn.IDs, config.ReplayMode(scn.Desired))
			if err != nil {
				o.opErr = err.Error()
				return
			}
			o.newName = name
		}()
		opReqs := tgt.Log()[seq0:]
		o.R = len(opReqs)
		o.crashed = tgt.Crashed()
		o.opLog = c17Strs(opReqs)
		for _, r := range opReqs {
			if r.Executed && !r.Failed {
				switch r.Name() {
				case "hset", "hdel", "del", "hsetnx", "zadd", "zrem":
					o.writes++
				}
			}
		}
		if scn.CrashAt >= 0 && scn.CrashAt < o.R {
			o.machinery = fmt.Sprintf("double: %d requests processed although the crash point was %d", o.R, scn.CrashAt)
			return
		}
		tgt.Revive()
		// ---- the next start: resolve the namespace, UpdateCheckpoint, StartPoint (bidirectional)
		time.Sleep(time.Second)
		seq1 := tgt.NumReqs()
		nextStart := func(mode string) c17Pos {
			cli, err := client.NewRedis(outCfg)
			if err != nil {
				return c17Pos{Err: "connect: " + err.Error()}
			}
			name, err := syncer.VerifResolveBisyncCheckpointName(cli, outCfg, scn.IDs, config.ReplayMode(mode))
			cli.Close()
			if err != nil {
				return c17Pos{Err: "resolve namespace: " + err.Error()}
			}
			runID, err := syncer.VerifUpdateCheckpoint(outCfg, name, scn.IDs)
			if err != nil {
				return c17Pos{Err: "updateCheckpoint: " + err.Error()}
			}
			ro := syncer.NewRedisOutput(c17bOutputCfg(name, runID, config.ReplayMode(mode)))
			sp, err := ro.StartPoint(ctx, scn.IDs)
			if err != nil {
				return c17Pos{Err: "StartPoint: " + err.Error()}
			}
			return c17Pos{None: sp.IsInitial() || sp.Offset < 0, Offset: sp.Offset, DB: sp.DbId, RunID: sp.RunId}
		}
		o.after = nextStart(scn.Desired)
		// The repository deliberately REFUSES to migrate a namespace that has no authoritative recorded state
		// (root checkpoint only, or a journal without a contiguous prefix; repo test
		// TestResolveBisyncCheckpointNameRejectsPlainCheckpointFallback). A refusal loses nothing as long as it
		// a start in the namespace's own mode still finds the position (judged below in place of the refused start).
		if o.after.Err != "" && (strings.Contains(o.after.Err, "authoritative migration seed") || strings.Contains(o.after.Err, checkpoint.ErrBisyncJournalGap.Error())) {
			own := scn.ModeMark
			if own == "" {
				own = "parallel"
				if scn.Format == "latest" {
					own = "sync"
				}
			}
			o.refused = o.after.Err
			o.after = nextStart(own)
		}
		o.recLog = c17Strs(tgt.Log()[seq1:])
		o.dump = tgt.Dump()
		if len(tgt.MachineryErrors) > 0 {
			o.machinery = "double: " + strings.Join(tgt.MachineryErrors, "; ")
		}
	})
	if msg != "" {
		o.machinery = "bubble: " + msg
	}
	return
}

func c17bJudge(scn c17bScenario, o c17bObs) mc.Result {
	detail := map[string]interface{}{"position_before": map[string]interface{}{"offset": scn.want(), "db": 0}, "position_after_restart": o.after, "operation_requests": o.opLog,
		"operation_error": o.opErr, "mode_switch_refused": o.refused, "crashed": o.crashed, "requests_processed": o.R, "next_start_requests": o.recLog, "target_after": strings.Split(c17MaskMtime(o.dump), "\n")}
	if o.machinery != "" {
		return mc.Result{Verdict: "machinery", Clause: o.machinery, Detail: detail}
	}
	switch {
	case o.after.Err != "":
		return mc.Violation("after the operation the next start fails on a healthy target instead of finding the resume position", "C17:next-start-error:mode-switch", detail)
	case o.after.None:
		return mc.Violation("the next start finds no resume position although one existed before the operation", "C17:position-lost:mode-switch", detail)
	case o.after.Offset < scn.want():
		return mc.Violation("the next start finds a smaller resume position than the one held before the operation", "C17:position-regressed:mode-switch", detail)
	case o.after.DB != 0:
		return mc.Violation("the next start finds the resume position in another target database than the one that held it before the operation", "C17:db-changed:mode-switch", detail)
	}
	nkeys := strings.Count(o.dump, "\n")
	if os.Getenv("VERIF_TRACE") != "" {
		fmt.Fprintln(os.Stderr, o.after, strings.Join(o.opLog, "\n"), "\n--\n", strings.Join(o.recLog, "\n"))
	}
	return mc.OK(mc.Hash(scn.Label, scn.Desired, strconv.Itoa(scn.CrashAt), strconv.FormatInt(o.after.Offset, 10), strconv.Itoa(nkeys)), o.writes > 0, o.R+len(o.recLog))
}

func c17bScenarios(tier string) []c17bScenario {
	var out []c17bScenario
	ids := []string{c17IDA, c17IDB}
	type shape struct {
		format  string
		journal int
		gap     bool
		nosnap  bool
	}
	shapes := []shape{{"latest", 0, false, false}, {"frontier", 0, false, false}, {"frontier", 1, false, false}, {"frontier", 2, false, false}, {"frontier", 2, true, false},
		// frontier form before the first snapshot: journal from unit 1, journal that starts at unit 2, and a namespace with the root checkpoint only
		{"frontier", 1, false, true}, {"frontier", 2, false, true}, {"frontier", 2, true, true}, {"root-only", 0, false, false}}
	for _, sh := range shapes {
		for _, root := range []int64{900, 1000, 1350} { // root checkpoint older than / equal to / newer than the recorded state (1000 [+100 per journal record])
			for _, sid := range []string{c17IDA, c17IDB} {
				marks := []string{"sync", ""}
				desired := []string{"pipeline", "parallel"}
				if sh.format == "root-only" {
					marks = []string{"sync", "parallel", ""}
					desired = []string{"sync", "parallel"}
				} else if sh.format == "frontier" {
					marks = []string{"pipeline", "parallel", ""}
					desired = []string{"sync"}
					if tier == "thorough" {
						desired = []string{"sync", "pipeline", "parallel"}
					}
				} else if tier == "thorough" {
					desired = []string{"pipeline", "parallel", "sync"}
				}
				for _, mk := range marks {
					for _, d := range desired {
						idn := "current-id"
						if sid == c17IDB {
							idn = "previous-id"
						}
						lab := fmt.Sprintf("bisync/%s+%djournal(gap=%v,snapshot=%v)/root=%d/%s/mark=%q", sh.format, sh.journal, sh.gap, !sh.nosnap, root, idn, mk)
						out = append(out, c17bScenario{Label: lab, Op: "mode-switch", Format: sh.format, ModeMark: mk, Desired: d, StateID: sid, IDs: ids, RootOff: root, RecOff: 1000, Journal: sh.journal, Gap: sh.gap, NoSnap: sh.nosnap, CrashAt: -1})
					}
				}
			}
		}
	}
	return out
}

// runC17Bisync enumerates every crash prefix of every mode-switch scenario.
func runC17Bisync(t *testing.T, rep *mc.Reporter, budget *mc.Budget, idx *int) {
	shard, nshards := mc.ShardOf()
	for _, base := range c17bScenarios(mc.Tier()) {
		*idx++
		if *idx%nshards != shard || budget.Expired() {
			continue
		}
		rep.Scenario()
		o := c17bExec(t, base)
		res := c17bJudge(base, o)
		if res.Verdict == "violation" {
			if r2 := c17bJudge(base, c17bExec(t, base)); r2.Verdict != res.Verdict || r2.Sig != res.Sig {
				res = mc.Result{Verdict: "machinery", Clause: "violation not reproducible: " + res.Sig + " vs " + r2.Verdict + "/" + r2.Sig, Detail: res.Detail}
			}
		}
		rep.Exec(base, nil, res)
		if o.machinery != "" {
			return
		}
		for k := 0; k < o.R; k++ {
			scn := base
			scn.CrashAt = k
			ok := c17bExec(t, scn)
			res := c17bJudge(scn, ok)
			if res.Verdict == "violation" {
				if r2 := c17bJudge(scn, c17bExec(t, scn)); r2.Verdict != res.Verdict || r2.Sig != res.Sig {
					res = mc.Result{Verdict: "machinery", Clause: "violation not reproducible: " + res.Sig + " vs " + r2.Verdict + "/" + r2.Sig, Detail: res.Detail}
				}
			}
			rep.Exec(scn, nil, res)
			if ok.machinery != "" {
				return
			}
		}
	}
}

package cmd

import (
	"bytes"
	"fmt"
	"os"
	"strings"
	"syscall"

	"github.com/mgtv-tech/redis-GunYu/config"
	"github.com/mgtv-tech/redis-GunYu/verifshim/redisd"
	"github.com/mgtv-tech/redis-GunYu/verifshim/vnet"
)

// ---------------------------------------------------------------------------
// C17, family "source answers": what the source nodes answer while the stale-checkpoint
// GC asks them for their replication ids.
//
// The GC pass consults every source node the real node selection yields (masters, then
// one replica per shard; a standalone source's addresses come out of both selections)
// with connect + PING + INFO replication. One execution fixes, for every consultation of
// the pass, what that consultation meets:
//
//	ok          the node answers with the ids it holds
//	refused     the connection is refused
//	ping-error  the connection is accepted, PING is answered with -LOADING
//	ping-reset  the connection is accepted and reset before the PING reply arrives
//	info-error  PING is answered, INFO replication is answered with -BUSY
//	info-cut    the INFO reply is cut inside the second id, then the connection ends
//	info-cut-id1  ... inside the first id
//
// The nodes keep their ids whatever a consultation meets: an id held by a node that
// could not be asked is still an id "a source reports", and the position stored under it
// is live. The oracle is the ground truth (the ids the nodes hold), not what the pass
// managed to learn.

const (
	c17SourceR  = "source-r:6379"  // replica of the first shard
	c17Source2R = "source2-r:6379" // replica of the second shard
)

var c17Zeros = strings.Repeat("0", 40)

type c17SrcNode struct {
	Addr string    `json:"addr"`
	IDs  [2]string `json:"ids"` // master_replid, master_replid2 the node holds (and reports when it can be asked)
}

type c17SrcShard struct {
	Master  c17SrcNode  `json:"master"`
	Replica *c17SrcNode `json:"replica,omitempty"`
}

type c17SrcPlan struct {
	Type     string        `json:"type"` // standalone: input.redis.addresses lists the nodes | cluster: shards with a master and optionally a replica
	Shards   []c17SrcShard `json:"shards"`
	Consults []string      `json:"consults"` // addresses in the order the real node selection yields them (masters, then replicas)
	Answers  []string      `json:"answers"`  // what the consultation Consults[i] meets
}

func (p *c17SrcPlan) nodes() []c17SrcNode {
	var out []c17SrcNode
	for _, s := range p.Shards {
		out = append(out, s.Master)
		if s.Replica != nil {
			out = append(out, *s.Replica)
		}
	}
	return out
}

// redisConfig builds input.redis the way FixTopology leaves it (standalone: one shard
// per address; cluster: the shards the topology query returned).
func (p *c17SrcPlan) redisConfig() config.RedisConfig {
	if p.Type != "cluster" {
		var addrs []string
		for _, s := range p.Shards {
			addrs = append(addrs, s.Master.Addr)
		}
		return c17RedisCfg(addrs...)
	}
	rc := config.RedisConfig{Type: config.RedisTypeCluster, Otype: config.RedisTypeCluster, Version: "7.2.0",
		ClusterOptions: &config.RedisClusterOptions{HandleMoveErr: true, HandleAskErr: true}}
	var shards []*config.RedisClusterShard
	width := 16384 / len(p.Shards)
	for i, s := range p.Shards {
		right := (i+1)*width - 1
		if i == len(p.Shards)-1 {
			right = 16383
		}
		sh := &config.RedisClusterShard{
			Slots:  config.RedisSlots{Ranges: []config.RedisSlotRange{{Left: i * width, Right: right}}},
			Master: config.RedisNode{Address: s.Master.Addr, Role: config.RedisRoleMaster, Health: "online"},
		}
		if s.Replica != nil {
			sh.Slaves = []config.RedisNode{{Address: s.Replica.Addr, Role: config.RedisRoleSlave, Health: "online"}}
		}
		shards = append(shards, sh)
		rc.Addresses = append(rc.Addresses, s.Master.Addr)
	}
	rc.SetClusterShards(shards)
	return rc
}

// consultOrder asks the REAL node selection which nodes a GC pass consults, in order.
func (p *c17SrcPlan) consultOrder() []string {
	rc := p.redisConfig()
	var out []string
	for _, n := range rc.SelNodes(true, config.SelNodeStrategyMaster) {
		out = append(out, n.Address())
	}
	for _, n := range rc.SelNodes(true, config.SelNodeStrategySlave) {
		out = append(out, n.Address())
	}
	return out
}

// c17SrcRun is the run-time side of a plan: the source doubles behind gates.
type c17SrcRun struct {
	plan      *c17SrcPlan
	dialled   map[string]int  // address -> connections attempted so far
	asked     map[string]bool // ids some answered consultation reported
	faults    int             // consultations that met a fault
	log       []string        // what every consultation met
	machinery string
}

type c17SrcConn struct {
	sym string
	c   *vnet.Conn
}

type c17SrcGate struct {
	run   *c17SrcRun
	node  c17SrcNode
	srv   *redisd.Server
	conns map[int]*c17SrcConn
}

// answerFor maps the k-th connection to an address to the k-th consultation of that address in the plan;
// connections beyond the plan (later passes, code that asks more often) are answered.
func (r *c17SrcRun) answerFor(addr string) string {
	k := r.dialled[addr]
	r.dialled[addr] = k + 1
	for i, a := range r.plan.Consults {
		if a != addr {
			continue
		}
		if k == 0 {
			if i < len(r.plan.Answers) {
				return r.plan.Answers[i]
			}
			return "ok"
		}
		k--
	}
	return "ok"
}

func (g *c17SrcGate) Accept(c *vnet.Conn) (vnet.Handler, error) {
	sym := g.run.answerFor(g.node.Addr)
	g.run.log = append(g.run.log, g.node.Addr+": "+sym)
	if sym == "refused" {
		g.run.faults++
		return nil, os.NewSyscallError("connect", syscall.ECONNREFUSED)
	}
	h, err := g.srv.Accept(c)
	if err != nil {
		return nil, err
	}
	if sym != "ok" {
		g.run.faults++
	}
	g.conns[c.User.(*redisd.ConnState).ID] = &c17SrcConn{sym: sym, c: c}
	return h, nil
}

// c17SrcSetup creates one double per node of the plan and puts a gate in front of each.
func c17SrcSetup(p *c17SrcPlan) *c17SrcRun {
	run := &c17SrcRun{plan: p, dialled: map[string]int{}, asked: map[string]bool{}}
	for _, n := range p.nodes() {
		n := n
		srv := redisd.New(n.Addr)
		srv.ReplID, srv.ReplID2 = n.IDs[0], n.IDs[1]
		g := &c17SrcGate{run: run, node: n, srv: srv, conns: map[int]*c17SrcConn{}}
		srv.Extra = func(s *redisd.Server, cs *redisd.ConnState, argv [][]byte) []byte {
			cn := g.conns[cs.ID]
			if cn == nil || len(argv) == 0 {
				return nil
			}
			name := strings.ToLower(string(argv[0]))
			switch {
			case cn.sym == "ping-error" && name == "ping":
				return []byte("-LOADING Redis is loading the dataset in memory\r\n")
			case cn.sym == "info-error" && name == "info":
				return []byte("-BUSY Redis is busy running a script. You can only call SCRIPT KILL or SHUTDOWN NOSAVE.\r\n")
			}
			return nil
		}
		srv.PlanRef().AfterReq = func(r *redisd.Req) {
			cn := g.conns[r.Conn]
			if cn == nil {
				return
			}
			name := r.Name()
			switch {
			case cn.sym == "ok" && name == "info" && !r.Failed:
				run.asked[n.IDs[0]], run.asked[n.IDs[1]] = true, true
			case cn.sym == "ping-reset" && name == "ping":
				srv.KillConnLocked(r.Conn, true)
			case strings.HasPrefix(cn.sym, "info-cut") && name == "info":
				// the client is still inside its Write: nothing of the reply has been read yet
				full := cn.c.Drain()
				field := "master_replid2:"
				if cn.sym == "info-cut-id1" {
					field = "master_replid:"
				}
				at := bytes.Index(full, []byte(field))
				if at < 0 || at+len(field)+20 > len(full) {
					run.machinery = "harness: INFO reply of the source double has no " + field
					at = 0
				} else {
					at += len(field) + 20
				}
				cn.c.Push(full[:at])
				srv.KillConnLocked(r.Conn, false)
			}
		}
		vnet.Register(n.Addr, g) // in front of the double's own registration
	}
	return run
}

// ---------------------------------------------------------------------------
// enumeration

type c17SrcTopo struct {
	name   string
	typ    string
	shards int
	repl   [2]bool // shard i has a replica
}

func c17SrcTopos(tier string) []c17SrcTopo {
	t := []c17SrcTopo{
		{"standalone-1", "standalone", 1, [2]bool{}},
		{"standalone-2", "standalone", 2, [2]bool{}},
		{"cluster-1shard+replica", "cluster", 1, [2]bool{true, false}},
		{"cluster-2shards", "cluster", 2, [2]bool{}},
		{"cluster-2shards+replicas", "cluster", 2, [2]bool{true, true}},
		{"cluster-2shards(first+replica)", "cluster", 2, [2]bool{true, false}},
	}
	if tier == "thorough" {
		t = append(t, c17SrcTopo{"cluster-2shards(second+replica)", "cluster", 2, [2]bool{false, true}})
	}
	return t
}

// c17SrcKinds: the faults a consultation can meet.
func c17SrcKinds(tier string) []string {
	k := []string{"refused", "info-error", "info-cut"}
	if tier == "thorough" {
		k = append(k, "ping-error", "ping-reset", "info-cut-id1")
	}
	return k
}

// c17SrcAnswerSets: every non-empty subset of the n consultations meets a fault, one kind per pass; thorough:
// additionally, for passes of two consultations that both meet a fault, every ordered pair of different kinds.
func c17SrcAnswerSets(n int, tier string) [][]string {
	kinds := c17SrcKinds(tier)
	var out [][]string
	for m := 1; m < 1<<uint(n); m++ {
		var idx []int
		for i := 0; i < n; i++ {
			if m&(1<<uint(i)) != 0 {
				idx = append(idx, i)
			}
		}
		mk := func(ks ...string) []string {
			a := make([]string, n)
			for i := range a {
				a[i] = "ok"
			}
			for j, i := range idx {
				a[i] = ks[j%len(ks)]
			}
			return a
		}
		if tier != "thorough" && n >= 3 {
			// quick, three or four consultations: one kind per subset, rotating with the subset (the caller rotates it
			// further with the state); the thorough tier takes every kind
			out = append(out, mk(kinds[m%len(kinds)]))
		} else {
			for _, k := range kinds {
				out = append(out, mk(k))
			}
		}
		if tier == "thorough" && len(idx) == 2 && n == 2 {
			for _, k1 := range kinds {
				for _, k2 := range kinds {
					if k1 != k2 {
						out = append(out, mk(k1, k2))
					}
				}
			}
		}
	}
	return out
}

func c17DBCount(es []c17Entry) int {
	m := map[int]bool{}
	for _, e := range es {
		m[e.DB] = true
	}
	return len(m)
}

// c17SrcScenarios crosses the single-source GC states of the existing family (layouts x offset patterns x
// mtime positions x stored id) with source topologies and with what every consultation of the pass meets.
func c17SrcScenarios(tier string) []c17Scenario {
	// ---- the first shard's bookkeeping: the existing gc-cron states of ONE source whose stored id the source reports
	var states []c17Scenario
	// (both tiers start from the quick tier's list: 3 mtime positions per entry, three-database states already thinned to
	// every third combination; the quick tier of this family leaves out three databases and "both ids")
	for _, s := range c17Scenarios("quick") {
		if s.Op != "gc-cron" || len(s.Other) > 0 || strings.Contains(s.Label, "/stale-id") || strings.Contains(s.Label, "unreported") {
			continue
		}
		if tier != "thorough" && (strings.Contains(s.Label, "stored-under-both-ids") || c17DBCount(s.Entries) > 2) {
			continue
		}
		states = append(states, s)
	}
	S := int64(c17Stale)
	yAges := []struct {
		n string
		v int64
	}{{"older-1ns", S + 1}, {"at", S}, {"younger-1ns", S - 1}}
	type yVar struct {
		age   int
		other bool   // in another database than the first shard's first entry
		id    string // stored under the second shard's current or second id
	}
	var yVars []yVar
	for a := range yAges {
		for _, other := range []bool{false, true} {
			for _, id := range []string{c17IDP, c17IDQ} {
				yVars = append(yVars, yVar{a, other, id})
			}
		}
	}
	perPair := 1 // second-shard variants per (state, plan)
	if tier == "thorough" {
		perPair = 2
	}

	var out []c17Scenario
	planNo := 0
	for _, topo := range c17SrcTopos(tier) {
		// which node of a shard with a replica is still on the previous id
		variants := []string{"same-ids"}
		if topo.repl[0] && (topo.shards == 1 || tier == "thorough") {
			variants = append(variants, "master-behind", "replica-behind")
		}
		for _, variant := range variants {
			mkPlan := func() *c17SrcPlan {
				p := &c17SrcPlan{Type: topo.typ}
				addrs := [2][2]string{{c17Source, c17SourceR}, {c17Source2, c17Source2R}}
				ids := [2][2]string{{c17IDA, c17IDB}, {c17IDP, c17IDQ}}
				for i := 0; i < topo.shards; i++ {
					full, behind := ids[i], [2]string{ids[i][1], c17Zeros}
					sh := c17SrcShard{Master: c17SrcNode{Addr: addrs[i][0], IDs: full}}
					if topo.repl[i] {
						sh.Replica = &c17SrcNode{Addr: addrs[i][1], IDs: full}
						if i == 0 && variant == "master-behind" {
							sh.Master.IDs = behind
						}
						if i == 0 && variant == "replica-behind" {
							sh.Replica.IDs = behind
						}
					}
					p.Shards = append(p.Shards, sh)
				}
				p.Consults = p.consultOrder()
				return p
			}
			n := len(mkPlan().Consults)
			sets := c17SrcAnswerSets(n, tier)
			// the pass in which every node answers: the configuration path (cluster-type source, replicas) under every
			// crash prefix of the target; every 24th state
			allOK := make([]string, n)
			for i := range allOK {
				allOK[i] = "ok"
			}
			for si, st := range states {
				for ai := -1; ai < len(sets); ai++ {
					planNo++
					ans := allOK
					if ai >= 0 {
						ans = sets[ai]
						if tier != "thorough" && n >= 3 {
							// rotate the kind of fault with the state
							ans = append([]string(nil), ans...)
							kinds := c17SrcKinds(tier)
							for i, a := range ans {
								for ki, k := range kinds {
									if a == k {
										ans[i] = kinds[(ki+si)%len(kinds)]
									}
								}
							}
						}
					} else if (si+planNo)%24 != 0 {
						continue
					}
					for rep := 0; rep < perPair; rep++ {
						scn := st
						scn.Entries = append([]c17Entry(nil), st.Entries...)
						scn.Hash = append([][2]string(nil), st.Hash...)
						p := mkPlan()
						p.Answers = ans
						scn.Src = p
						lab := fmt.Sprintf("%s/source:%s/%s/answers:%s", st.Label, topo.name, variant, strings.Join(ans, ","))
						if topo.shards == 2 {
							// the second shard's position shares the checkpoint key; its variant rotates over states and plans
							y := yVars[(si+planNo+rep*4)%len(yVars)]
							ydb := st.Entries[0].DB
							if y.other {
								ydb = (st.Entries[len(st.Entries)-1].DB + 1) % 3
							}
							scn.Entries = append(scn.Entries, c17Entry{DB: ydb, Name: c17NameOld, ID: y.id, Offset: 4242, AgeNs: yAges[y.age].v})
							scn.Hash = append(scn.Hash, [2]string{y.id, c17NameOld})
							scn.Other = []string{c17IDP, c17IDQ}
							lab += fmt.Sprintf("/second-shard(db%d,mtime:%s,stored-under-%s-id)", ydb, yAges[y.age].n, map[bool]string{true: "current", false: "second"}[y.id == c17IDP])
						} else if rep > 0 {
							break
						}
						scn.Label = lab
						out = append(out, scn)
					}
				}
			}
		}
	}
	return out
}

package cmd

import (
	"context"
	"encoding/json"
	"fmt"
	"os"
	"runtime/debug"
	"sort"
	"strconv"
	"strings"
	"testing"
	"time"

	"github.com/mgtv-tech/redis-GunYu/config"
	"github.com/mgtv-tech/redis-GunYu/pkg/redis"
	"github.com/mgtv-tech/redis-GunYu/pkg/redis/checkpoint"
	"github.com/mgtv-tech/redis-GunYu/pkg/redis/client"
	"github.com/mgtv-tech/redis-GunYu/syncer"
	"github.com/mgtv-tech/redis-GunYu/verifshim/mc"
	"github.com/mgtv-tech/redis-GunYu/verifshim/redisd"
	"github.com/mgtv-tech/redis-GunYu/verifshim/vnet"
)

// ---------------------------------------------------------------------------
// C17 - resume bookkeeping maintenance never loses the live resume position.
//
// One execution = populate the target double with an initial bookkeeping state, look
// the resume position up with the real start-up lookup (position held before), run ONE
// maintenance operation with the real code while the target dies after exactly k of
// the operation's requests (k = R: no crash), bring the target back, run what the
// next start runs (checkpoint.UpdateCheckpoint on a fresh connection, then
// RedisOutput.StartPoint) and compare the position found with the one held before.
//
// The order in which the code visits the target databases is Go map iteration order.
// It cannot be chosen, so it is OBSERVED (sequence of SELECTs in the request log) and
// enumerated by rejection: executions are repeated until every visiting order that
// was seen in uncrashed runs has also been seen at every crash point.

func init() { verifChecks["C17"] = runC17 }

const (
	c17Target  = "target:6379"
	c17Source  = "source:6379"
	c17Source2 = "source2:6379"
	c17Stale   = 12 * time.Hour
)

var (
	c17IDA     = strings.Repeat("a", 40) // what the source reports as master_replid
	c17IDB     = strings.Repeat("b", 40) // what the source reports as master_replid2 (id before the failover)
	c17IDZ     = strings.Repeat("c", 40) // an id no source reports any more
	c17IDP     = strings.Repeat("e", 40) // a second, unrelated source: its master_replid
	c17IDQ     = strings.Repeat("f", 40) // ... and its master_replid2
	c17NameOld = config.CheckpointKey
	c17NameNew = config.CheckpointKey + "-{0ab}"
)

type c17Entry struct {
	DB     int    `json:"db"`
	Name   string `json:"name"`
	ID     string `json:"id"`
	Offset int64  `json:"offset"`
	AgeNs  int64  `json:"age_ns"` // mtime = (clock at start) - AgeNs
}

type c17Scenario struct {
	Label   string      `json:"label"`
	Op      string      `json:"op"`    // start (the real start-up wrapper) | rename | reid | rename+reid (UpdateCheckpoint directly) | setrunid | gc-cron | gc-del
	Local   string      `json:"local"` // checkpoint name the operation / the next start is configured with
	IDs     []string    `json:"ids"`   // replication ids the source reports: [current, previous]
	Hash    [][2]string `json:"hash"`  // index hash: id -> checkpoint name (insertion order)
	Entries []c17Entry  `json:"entries"`
	Extra   []int       `json:"extra,omitempty"`            // databases that hold an unrelated key
	Other   []string    `json:"other_source_ids,omitempty"` // a second, unrelated source replicating into the same target: [its current id, its previous id]; its entries and index entries are part of Entries / Hash
	CrashAt int         `json:"crash_at"`                   // the target dies after this many requests of the operation; -1 = never
	Fault   string      `json:"fault,omitempty"`            // what happens at crash_at: "" the target dies and the tool with it | "error-reply": request crash_at+1 is answered with an error, target and tool live on | "crash-revive": the target dies, comes back 2 s later, the tool lives on (its own retries run)
	Order   string      `json:"order,omitempty"`            // database visiting order of the operation (observed; required on replay)
	Src     *c17SrcPlan `json:"source_plan,omitempty"`      // gc-cron: source topology and what every consultation of the pass meets (c17_gcsrc_test.go); IDs / Other are the ids the first / second shard's nodes hold
	ROrder  string      `json:"recovery_order,omitempty"`
}

func (s c17Scenario) kind() string {
	if s.Fault != "" {
		return "setrunid-retry"
	}
	if !strings.HasPrefix(s.Op, "gc") {
		return "rekey"
	}
	if strings.HasPrefix(s.Op, "gc") {
		if s.Src != nil {
			return "gc-source-answers"
		}
		return "gc"
	}
	return s.Op
}

type c17Pos struct {
	None   bool   `json:"none"`
	Offset int64  `json:"offset"`
	DB     int    `json:"db"`
	RunID  string `json:"run_id,omitempty"`
	Err    string `json:"error,omitempty"`
}

type c17Obs struct {
	machinery  string
	before     c17Pos
	after      c17Pos
	R          int // target requests the operation issued (until the crash)
	crashed    bool
	order      string
	firstTry   string // visiting order of the operation's first attempt
	rorder     string
	opErr      string
	bootErr    string
	opLog      []string
	recLog     []string
	writes     int
	dump       string
	beforeY    c17Pos // the other source's position before the operation
	beforeYDBs []int
	afterY     c17Pos // ... and what its next start finds after the operation and the first source's starts
	afterX3    c17Pos // the first source's start after the other source has started
	recYLog    []string
	after2     c17Pos // position found by a second start, after the first one went on under the current id (SetRunId)
	rec2Log    []string
	gcLost     []string // newest entries of reported ids that the operation removed
	gcNotAsked bool     // ... among them one whose id no consultation of the pass learned (every node holding it met a fault)
	srcFaults  int      // consultations of source nodes that met a fault
	srcLog     []string // what every consultation of a source node met
	nDB        int
	beforeDBs  []int // databases that tie exactly (same offset, same mtime) for the position held before
}

func c17RedisCfg(addr ...string) config.RedisConfig {
	rc := config.RedisConfig{Addresses: addr, Type: config.RedisTypeStandalone, Otype: config.RedisTypeStandalone, Version: "7.2.0",
		ClusterOptions: &config.RedisClusterOptions{HandleMoveErr: true, HandleAskErr: true}}
	if err := redis.FixTopology(&rc); err != nil {
		panic(err)
	}
	return rc
}

func c17OutputCfg(name, runID string) syncer.RedisOutputConfig {
	return syncer.RedisOutputConfig{
		InputName:                  "src",
		CheckpointName:             name,
		RunId:                      runID,
		Redis:                      c17RedisCfg(c17Target),
		EnableResumeFromBreakPoint: true,
		KeyExists:                  "replace",
		TargetDb:                   -1,
		BatchCmdCount:              10,
		BatchTicker:                time.Second,
		BatchBufferSize:            1 << 20,
		KeepaliveTicker:            3 * time.Second,
		ReplayRdbParallel:          1,
		ReplayRdbEnableRestore:     true,
		UpdateCheckpointTicker:     time.Second,
		Stats:                      config.OutputStats{DisableLog: true},
	}
}

// c17Signature renders the SELECT / INFO sequence of a slice of the request log.
func c17Signature(reqs []*redisd.Req) string {
	var sb strings.Builder
	for _, r := range reqs {
		switch r.Name() {
		case "select":
			if len(r.Argv) > 1 {
				sb.WriteString(string(r.Argv[1]))
			}
		case "info":
			sb.WriteString("i")
		}
	}
	return sb.String()
}

// c17FirstLoop returns the databases visited after the first INFO keyspace of a
// signature (at most n of them).
func c17FirstLoop(sig string, n int) string {
	i := strings.Index(sig, "i")
	if i < 0 {
		return ""
	}
	rest := sig[i+1:]
	if j := strings.Index(rest, "i"); j >= 0 {
		rest = rest[:j]
	}
	if len(rest) > n {
		rest = rest[:n]
	}
	return rest
}

func c17Strs(reqs []*redisd.Req) []string {
	out := make([]string, len(reqs))
	for i, r := range reqs {
		out[i] = r.String()
	}
	return out
}

func (scn c17Scenario) hashName(id string) string {
	for _, h := range scn.Hash {
		if h[0] == id {
			return h[1]
		}
	}
	return ""
}

// c17Exec runs one execution.
func c17Exec(t *testing.T, scn c17Scenario) (o c17Obs) {
	msg := bubble(t, func() {
		vnet.Reset()
		tgt := redisd.New(c17Target)
		srcAddrs := []string{c17Source}
		var srcRun *c17SrcRun
		if scn.Src != nil {
			srcRun = c17SrcSetup(scn.Src)
		} else {
			src := redisd.New(c17Source)
			src.ReplID, src.ReplID2 = scn.IDs[0], scn.IDs[1]
		}
		if scn.Src == nil && len(scn.Other) == 2 {
			src2 := redisd.New(c17Source2)
			src2.ReplID, src2.ReplID2 = scn.Other[0], scn.Other[1]
			srcAddrs = append(srcAddrs, c17Source2)
		}
		now0 := time.Now().UnixNano()
		ctx, cancel := context.WithCancel(context.Background())
		defer cancel()

		// ---- initial bookkeeping state
		dbs := map[int]bool{}
		if len(scn.Hash) > 0 {
			v := &redisd.Value{T: 'h', Hash: map[string][]byte{}}
			for _, h := range scn.Hash {
				v.Hash[h[0]] = []byte(h[1])
				v.HOrder = append(v.HOrder, h[0])
			}
			tgt.Put(0, config.CheckpointKeyHashKey, v)
			dbs[0] = true
		}
		for _, e := range scn.Entries {
			v := tgt.Get(e.DB, e.Name)
			if v == nil {
				v = &redisd.Value{T: 'h', Hash: map[string][]byte{}}
			}
			set := func(f, val string) {
				if _, ok := v.Hash[f]; !ok {
					v.HOrder = append(v.HOrder, f)
				}
				v.Hash[f] = []byte(val)
			}
			set(e.ID+checkpoint.CheckpointMtimeSuffix, strconv.FormatInt(now0-e.AgeNs, 10))
			set(e.ID+checkpoint.CheckpointRunIdSuffix, e.ID)
			set(e.ID+checkpoint.CheckpointVersionSuffix, config.Version)
			set(e.ID+checkpoint.CheckpointOffsetSuffix, strconv.FormatInt(e.Offset, 10))
			tgt.Put(e.DB, e.Name, v)
			dbs[e.DB] = true
		}
		for _, db := range scn.Extra {
			tgt.Put(db, "business:key", &redisd.Value{T: 's', Str: []byte("v")})
			dbs[db] = true
		}
		o.nDB = len(dbs)

		// ---- global configuration (read by gcStaleCheckpoint)
		sc := config.GetSyncerConfig()
		inCfg, outCfg := c17RedisCfg(srcAddrs...), c17RedisCfg(c17Target)
		if scn.Src != nil {
			inCfg = scn.Src.redisConfig()
		}
		tr := true
		sc.Input = &config.InputConfig{Redis: &inCfg}
		sc.Output = &config.OutputConfig{Redis: &outCfg, Replay: config.ReplayConfig{ResumeFromBreakPoint: &tr}}
		sc.Channel = &config.ChannelConfig{Type: "memory", StaleCheckpointDuration: c17Stale}
		sc.Cluster = nil

		// ---- the position a start would have found before the operation
		lookup := func(ids []string) c17Pos {
			cli, err := client.NewRedis(outCfg)
			if err != nil {
				return c17Pos{Err: err.Error()}
			}
			defer cli.Close()
			name, _, err := checkpoint.GetCheckpointHash(cli, ids)
			if err != nil {
				return c17Pos{Err: err.Error()}
			}
			if name == "" {
				return c17Pos{None: true, Offset: -1, DB: -1}
			}
			cpi, db, err := checkpoint.GetCheckpoint(cli, name, ids)
			if err != nil {
				return c17Pos{Err: err.Error()}
			}
			return c17Pos{None: cpi.RunId == "?" || cpi.Offset < 0, Offset: cpi.Offset, DB: db, RunID: cpi.RunId}
		}
		// an exact tie (same offset AND same mtime in several databases) is resolved by
		// iteration order already before the operation: every tying database is accepted
		ties := func(ids []string, before c17Pos) []int {
			dbs := []int{before.DB}
			if before.None {
				return dbs
			}
			name := scn.hashName(ids[0])
			if name == "" {
				name = scn.hashName(ids[1])
			}
			var at *c17Entry
			for i := range scn.Entries {
				e := &scn.Entries[i]
				if e.DB == before.DB && e.Name == name && e.Offset == before.Offset && (e.ID == ids[0] || e.ID == ids[1]) {
					at = e
				}
			}
			if at != nil {
				for _, e := range scn.Entries {
					if e.DB != at.DB && e.Name == name && e.Offset == at.Offset && e.AgeNs == at.AgeNs && (e.ID == ids[0] || e.ID == ids[1]) {
						dbs = append(dbs, e.DB)
					}
				}
			}
			return dbs
		}
		o.before = lookup(scn.IDs)
		if o.before.Err != "" {
			o.machinery = "harness: cannot look up the initial position: " + o.before.Err
			return
		}
		o.beforeDBs = ties(scn.IDs, o.before)
		o.beforeY = c17Pos{None: true}
		if len(scn.Other) == 2 {
			o.beforeY = lookup(scn.Other)
			if o.beforeY.Err != "" {
				o.machinery = "harness: cannot look up the other source's initial position: " + o.beforeY.Err
				return
			}
			o.beforeYDBs = ties(scn.Other, o.beforeY)
		}

		// ---- the operation, with the crash point
		seq0 := tgt.NumReqs()
		if scn.CrashAt >= 0 {
			switch scn.Fault {
			case "error-reply":
				tgt.PlanRef().FailAt = map[int]string{seq0 + scn.CrashAt + 1: "ERR injected failure"}
			default:
				tgt.PlanRef().CrashAfter = seq0 + scn.CrashAt
			}
		}
		var opErr error
		switch scn.Op {
		case "start":
			// what syncer.newOutput runs before it builds the output
			_, opErr = syncer.VerifUpdateCheckpoint(outCfg, scn.Local, scn.IDs)
		case "rename", "reid", "rename+reid", "noop":
			cli, err := client.NewRedis(outCfg)
			if err != nil {
				opErr = err
				break
			}
			opErr = checkpoint.UpdateCheckpoint(cli, scn.Local, scn.IDs)
			cli.Close()
		case "setrunid":
			ro := syncer.NewRedisOutput(c17OutputCfg(scn.Local, scn.IDs[1]))
			if scn.Fault == "crash-revive" && scn.CrashAt >= 0 {
				// the tool lives on: SetRunId's own retries (3 attempts, about 4 s apart) meet the target again
				done := make(chan error, 1)
				go func() { done <- ro.SetRunId(ctx, scn.IDs[0]) }()
				time.Sleep(2 * time.Second)
				tgt.Revive()
				opErr = <-done
			} else {
				opErr = ro.SetRunId(ctx, scn.IDs[0])
			}
		case "gc-cron":
			NewSyncerCmd().gcStaleCheckpoint(ctx)
		case "gc-del":
			cli, err := client.NewRedis(outCfg)
			if err != nil {
				opErr = err
				break
			}
			gid := scn.IDs[0] // the reported id the index knows (current id first)
			if scn.hashName(gid) == "" {
				gid = scn.IDs[1]
			}
			_, _, opErr = checkpoint.DelStaleCheckpoint(cli, scn.hashName(gid), gid, c17Stale, true)
			cli.Close()
		default:
			o.machinery = "harness: unknown operation " + scn.Op
			return
		}
		if opErr != nil {
			o.opErr = opErr.Error()
		}
		if srcRun != nil {
			o.srcFaults, o.srcLog = srcRun.faults, srcRun.log
			if srcRun.machinery != "" {
				o.machinery = srcRun.machinery
				return
			}
		}
		log := tgt.Log()
		opReqs := log[seq0:]
		o.R = len(opReqs)
		o.crashed = tgt.Crashed()
		o.order = c17Signature(opReqs)
		o.firstTry = o.order
		if scn.Fault != "" && scn.CrashAt >= 0 {
			// the tool survives and retries: only the requests of its first attempt show the visiting order that is being enumerated
			n := scn.CrashAt
			if scn.Fault == "error-reply" {
				n++
			}
			if n > len(opReqs) {
				n = len(opReqs)
			}
			o.firstTry = c17Signature(opReqs[:n])
		}
		o.opLog = c17Strs(opReqs)
		for _, r := range opReqs {
			if r.Executed && !r.Failed {
				switch r.Name() {
				case "hset", "hdel", "del", "hsetnx":
					o.writes++
				}
			}
		}
		if scn.CrashAt >= 0 && scn.Fault == "" && scn.CrashAt < o.R {
			o.machinery = fmt.Sprintf("double: %d requests processed although the crash point was %d", o.R, scn.CrashAt)
			return
		}
		tgt.PlanRef().FailAt = nil
		if !o.crashed && opErr != nil && scn.CrashAt < 0 {
			o.machinery = "" // a failing operation on a healthy target is judged below through the position
		}
		tgt.Revive()

		// ---- GC clause: the newest entry of every id the source reports is still there
		if strings.HasPrefix(scn.kind(), "gc") {
			for _, id := range append(append([]string(nil), scn.IDs...), scn.Other...) {
				name := scn.hashName(id)
				if id == "" || name == "" {
					continue
				}
				var best *c17Entry
				for i := range scn.Entries {
					e := &scn.Entries[i]
					if e.ID != id || e.Name != name || e.Offset <= 0 {
						continue
					}
					if best == nil || e.Offset > best.Offset || (e.Offset == best.Offset && e.AgeNs < best.AgeNs) {
						best = e
					}
				}
				if best == nil {
					continue
				}
				// the newest checkpoint survives if its entry (or one that ties with it exactly:
				// same offset and same mtime) is still stored
				kept := false
				for _, e := range scn.Entries {
					if e.ID != id || e.Name != name || e.Offset != best.Offset || e.AgeNs != best.AgeNs {
						continue
					}
					v := tgt.Get(e.DB, e.Name)
					if v != nil && string(v.Hash[id+checkpoint.CheckpointOffsetSuffix]) == strconv.FormatInt(e.Offset, 10) {
						kept = true
					}
				}
				note := ""
				if srcRun != nil && !srcRun.asked[id] {
					note = " - no node holding this id could be asked during the pass"
				}
				if !kept {
					o.gcLost = append(o.gcLost, fmt.Sprintf("id %s..: newest entry db%d offset %d (mtime age %s)%s", id[:4], best.DB, best.Offset, time.Duration(best.AgeNs), note))
					o.gcNotAsked = o.gcNotAsked || note != ""
				}
				if hv := tgt.Get(0, config.CheckpointKeyHashKey); hv == nil || string(hv.Hash[id]) != name {
					o.gcLost = append(o.gcLost, fmt.Sprintf("id %s..: its entry in the checkpoint index (-> %s) is gone%s", id[:4], name, note))
					o.gcNotAsked = o.gcNotAsked || note != ""
				}
			}
		}

		// ---- the next start (a restart takes time)
		time.Sleep(time.Second)
		seq1 := tgt.NumReqs()
		var ro *syncer.RedisOutput
		startIDs := scn.IDs
		start := func() c17Pos {
			runID, err := syncer.VerifUpdateCheckpoint(outCfg, scn.Local, startIDs)
			if err != nil {
				return c17Pos{Err: "updateCheckpoint: " + err.Error()}
			}
			ro = syncer.NewRedisOutput(c17OutputCfg(scn.Local, runID))
			sp, err := ro.StartPoint(ctx, startIDs)
			if err != nil {
				return c17Pos{Err: "StartPoint: " + err.Error()}
			}
			return c17Pos{None: sp.IsInitial() || sp.Offset < 0, Offset: sp.Offset, DB: sp.DbId, RunID: sp.RunId}
		}
		o.after = start()
		recEnd := tgt.NumReqs()
		// the source grants PSYNC: the run goes on under the source's current id, then stops; one more start
		o.after2 = o.after
		if o.after.Err == "" && !o.after.None && ro != nil {
			if err := ro.SetRunId(ctx, scn.IDs[0]); err != nil {
				o.after2 = c17Pos{Err: "SetRunId after the start: " + err.Error()}
			} else {
				time.Sleep(time.Second)
				o.after2 = start()
			}
		}
		o.rec2Log = c17Strs(tgt.Log()[recEnd:])
		// ---- the other source sharing the checkpoint key starts too (same configured name), then the first one once more
		o.afterY, o.afterX3 = o.beforeY, o.after2
		if len(scn.Other) == 2 {
			recY := tgt.NumReqs()
			time.Sleep(time.Second)
			startIDs = scn.Other
			o.afterY = start()
			time.Sleep(time.Second)
			startIDs = scn.IDs
			o.afterX3 = start()
			o.recYLog = c17Strs(tgt.Log()[recY:])
		}
		recReqs := tgt.Log()[seq1:recEnd]
		o.rorder = c17Signature(tgt.Log()[seq1:]) // both starts and the SetRunId in between: their visiting orders decide what the second start finds
		o.recLog = c17Strs(recReqs)
		o.dump = tgt.Dump()
		if len(tgt.MachineryErrors) > 0 {
			o.machinery = "double: " + strings.Join(tgt.MachineryErrors, "; ")
		}
	})
	if msg != "" {
		o.machinery = "bubble: " + msg
	}
	return
}

// c17MaskMtime removes the volatile mtime values from a keyspace dump.
func c17MaskMtime(d string) string {
	var sb strings.Builder
	for {
		i := strings.Index(d, "_mtime")
		if i < 0 {
			sb.WriteString(d)
			break
		}
		sb.WriteString(d[:i+6])
		d = d[i+6:]
		// skip up to the next field separator: digits and quoting characters
		j := 0
		for j < len(d) && (d[j] == '"' || d[j] == '=' || d[j] == ':' || d[j] == ' ' || (d[j] >= '0' && d[j] <= '9')) {
			j++
		}
		sb.WriteString("~")
		d = d[j:]
	}
	return sb.String()
}

func c17Judge(scn c17Scenario, o c17Obs) mc.Result {
	detail := func() map[string]interface{} {
		return map[string]interface{}{"position_before": o.before, "position_after_restart": o.after, "operation_requests": o.opLog, "operation_error": o.opErr,
			"source_consultations": o.srcLog, "exact_tie_databases_before": o.beforeDBs, "crashed": o.crashed, "requests_processed": o.R, "next_start_requests": o.recLog, "visiting_order": o.order, "target_after": strings.Split(c17MaskMtime(o.dump), "\n")}
	}
	if o.machinery != "" {
		return mc.Result{Verdict: "machinery", Clause: o.machinery, Detail: detail()}
	}
	kind := scn.kind()
	if len(o.gcLost) > 0 {
		d := detail()
		d["removed"] = o.gcLost
		if o.gcNotAsked {
			return mc.Violation("garbage collection removed the newest checkpoint of a replication id whose source could not be asked during the pass (connection refused / error reply / reply cut off): the source still holds that id, the position stored under it is live", "C17:gc-removed-newest:source-not-asked", d)
		}
		return mc.Violation("garbage collection removed the newest checkpoint of a replication id the source still reports", "C17:gc-removed-newest", d)
	}
	if !o.before.None {
		for i, after := range []c17Pos{o.after, o.after2} {
			which := "the next start"
			d := detail()
			if i == 1 {
				which = "the start after the next one (the run in between went on under the source's current id)"
				d["position_after_second_restart"] = after
				d["second_start_requests"] = o.rec2Log
			}
			switch {
			case after.Err != "":
				return mc.Violation("after the operation "+which+" fails on a healthy target instead of finding the resume position", "C17:next-start-error:"+kind, d)
			case after.None:
				return mc.Violation(which+" finds no resume position although one existed before the operation", "C17:position-lost:"+kind, d)
			case after.Offset < o.before.Offset:
				return mc.Violation(which+" finds a smaller resume position than the one held before the operation", "C17:position-regressed:"+kind, d)
			case !c17In(o.beforeDBs, after.DB):
				return mc.Violation(which+" finds the resume position in another target database than the one that held it before the operation", "C17:db-changed:"+kind, d)
			}
		}
	}
	if len(scn.Other) == 2 {
		type chk struct {
			who, which string
			before     c17Pos
			dbs        []int
			after      c17Pos
		}
		for _, c := range []chk{
			{"the other source sharing the checkpoint key", "its next start", o.beforeY, o.beforeYDBs, o.afterY},
			{"the source the operation was run for", "its start after the other source has started", o.before, o.beforeDBs, o.afterX3}} {
			if c.before.None {
				continue
			}
			d := detail()
			d["other_source_position_before"], d["other_source_position_after"], d["first_source_third_start"], d["later_start_requests"] = o.beforeY, o.afterY, o.afterX3, o.recYLog
			pre := c.who + ": " + c.which
			switch {
			case c.after.Err != "":
				return mc.Violation(pre+" fails on a healthy target instead of finding the resume position", "C17:other-source:next-start-error:"+kind, d)
			case c.after.None:
				return mc.Violation(pre+" finds no resume position although one existed before the operation", "C17:other-source:position-lost:"+kind, d)
			case c.after.Offset < c.before.Offset:
				return mc.Violation(pre+" finds a smaller resume position than the one held before the operation", "C17:other-source:position-regressed:"+kind, d)
			case !c17In(c.dbs, c.after.DB):
				return mc.Violation(pre+" finds the resume position in another target database than before the operation", "C17:other-source:db-changed:"+kind, d)
			}
		}
	}
	obs := mc.Hash(scn.Label, scn.Op, scn.Fault, strconv.Itoa(scn.CrashAt), c17MaskMtime(o.dump), fmt.Sprintf("%v/%d/%d", o.after.None, o.after.Offset, o.after.DB))
	// non-trivial: a position existed before and the operation changed the target - or had to decide with a
	// source node that could not be asked
	return mc.OK(obs, !o.before.None && (o.writes > 0 || o.srcFaults > 0), o.R+len(o.recLog))
}

func c17In(l []int, x int) bool {
	for _, y := range l {
		if x == y {
			return true
		}
	}
	return false
}

// ---------------------------------------------------------------------------
// initial states

type c17Layout struct {
	name  string
	dbs   []int // databases holding a checkpoint of the live name
	extra []int
}

func c17Layouts(tier string) []c17Layout {
	l := []c17Layout{
		{"db0", []int{0}, nil},
		{"db0+other1", []int{0}, []int{1}},
		{"db1", []int{1}, nil},
		{"db0,db1", []int{0, 1}, nil},
		{"db1,db2", []int{1, 2}, nil},
		{"db0,db1,db2", []int{0, 1, 2}, nil},
	}
	if tier == "thorough" {
		l = append(l, c17Layout{"db0+other1,2", []int{0}, []int{1, 2}}, c17Layout{"db1+other2", []int{1}, []int{2}}, c17Layout{"db0,db2+other1", []int{0, 2}, []int{1}})
	}
	return l
}

// offset patterns over k entries; ages in seconds (distinct, so that ties in offset
// are decided by mtime and never by iteration order)
type c17Pattern struct {
	name    string
	offsets func(i, k int) int64
	ageS    func(i, k int) int64
}

func c17Patterns(k int) []c17Pattern {
	if k == 1 {
		return []c17Pattern{{"single", func(i, k int) int64 { return 100 }, func(i, k int) int64 { return 10 }}}
	}
	return []c17Pattern{
		{"increasing", func(i, k int) int64 { return int64(100 * (i + 1)) }, func(i, k int) int64 { return int64(10 * (k - i)) }},
		{"decreasing", func(i, k int) int64 { return int64(100 * (k - i)) }, func(i, k int) int64 { return int64(10 * (i + 1)) }},
		{"equal-newest-first", func(i, k int) int64 { return 500 }, func(i, k int) int64 { return int64(10 * (i + 1)) }},
		{"equal-newest-last", func(i, k int) int64 { return 500 }, func(i, k int) int64 { return int64(10 * (k - i)) }},
	}
}

func c17Scenarios(tier string) []c17Scenario {
	var out []c17Scenario
	ids := []string{c17IDA, c17IDB}
	add := func(s c17Scenario) {
		s.CrashAt = -1
		s.IDs = ids
		out = append(out, s)
	}
	for _, lay := range c17Layouts(tier) {
		for _, pat := range c17Patterns(len(lay.dbs)) {
			mk := func(name, id string) []c17Entry {
				var es []c17Entry
				for i, db := range lay.dbs {
					es = append(es, c17Entry{DB: db, Name: name, ID: id, Offset: pat.offsets(i, len(lay.dbs)), AgeNs: pat.ageS(i, len(lay.dbs)) * int64(time.Second)})
				}
				return es
			}
			lab := lay.name + "/" + pat.name
			staleZ := c17Entry{DB: 0, Name: c17NameOld, ID: c17IDZ, Offset: 7777, AgeNs: int64(48 * time.Hour)}
			// (a) rename: the index points to the old name
			add(c17Scenario{Label: lab, Op: "start", Local: c17NameNew, Hash: [][2]string{{c17IDA, c17NameOld}}, Entries: mk(c17NameOld, c17IDA), Extra: lay.extra})
			// (b) re-id after a source failover, directly and through RedisOutput.SetRunId
			add(c17Scenario{Label: lab, Op: "reid", Local: c17NameOld, Hash: [][2]string{{c17IDB, c17NameOld}}, Entries: mk(c17NameOld, c17IDB), Extra: lay.extra})
			add(c17Scenario{Label: lab, Op: "setrunid", Local: c17NameOld, Hash: [][2]string{{c17IDB, c17NameOld}}, Entries: mk(c17NameOld, c17IDB), Extra: lay.extra})
			// the real start-up wrapper on a checkpoint stored under the source's previous id: same name (nothing to do, no
			// re-id before the source has answered PSYNC) and a new name (rename under the previous id)
			add(c17Scenario{Label: lab + "/stored-under-second-id", Op: "start", Local: c17NameOld, Hash: [][2]string{{c17IDB, c17NameOld}}, Entries: mk(c17NameOld, c17IDB), Extra: lay.extra})
			add(c17Scenario{Label: lab + "/stored-under-second-id", Op: "start", Local: c17NameNew, Hash: [][2]string{{c17IDB, c17NameOld}}, Entries: mk(c17NameOld, c17IDB), Extra: lay.extra})
			if tier == "thorough" {
				// UpdateCheckpoint renaming and re-keying in one go (not what a start does any more)
				add(c17Scenario{Label: lab, Op: "rename+reid", Local: c17NameNew, Hash: [][2]string{{c17IDB, c17NameOld}}, Entries: mk(c17NameOld, c17IDB), Extra: lay.extra})
			}
			// stale entry of an unreported id next to the live one
			add(c17Scenario{Label: lab + "/stale-id", Op: "start", Local: c17NameNew, Hash: [][2]string{{c17IDZ, c17NameOld}, {c17IDA, c17NameOld}}, Entries: append(mk(c17NameOld, c17IDA), staleZ), Extra: lay.extra})
			add(c17Scenario{Label: lab + "/stale-id", Op: "reid", Local: c17NameOld, Hash: [][2]string{{c17IDZ, c17NameOld}, {c17IDB, c17NameOld}}, Entries: append(mk(c17NameOld, c17IDB), staleZ), Extra: lay.extra})
			// old and new ids both present. Only shapes a run can leave behind are used:
			// a re-id writes a copy of the newest entry under the new id, then repoints the
			// index, then removes the old id; progress afterwards is stored under the new id.
			{
				old := mk(c17NameOld, c17IDB)
				best := 0
				for i := range old {
					if old[i].Offset > old[best].Offset || (old[i].Offset == old[best].Offset && old[i].AgeNs < old[best].AgeNs) {
						best = i
					}
				}
				copyIn := func(db int, off int64) []c17Entry {
					return append(append([]c17Entry(nil), old...), c17Entry{DB: db, Name: c17NameOld, ID: c17IDA, Offset: off, AgeNs: int64(time.Second)})
				}
				both := [][2]string{{c17IDB, c17NameOld}, {c17IDA, c17NameOld}}
				// the copy sits in the database of the newest entry (where a correct re-id puts it;
				// the misplaced copies the unfixed UpdateCheckpoint produces are that defect's own
				// consequence and are not used as initial states)
				places := []int{old[best].DB}
				for _, db := range places {
					l2 := fmt.Sprintf("%s/both-ids(copy in db%d)", lab, db)
					// interrupted before the index was repointed
					add(c17Scenario{Label: l2 + "/index-old", Op: "reid", Local: c17NameOld, Hash: [][2]string{{c17IDB, c17NameOld}}, Entries: copyIn(db, old[best].Offset), Extra: lay.extra})
					// interrupted after the index was repointed
					add(c17Scenario{Label: l2 + "/index-both", Op: "reid", Local: c17NameOld, Hash: both, Entries: copyIn(db, old[best].Offset), Extra: lay.extra})
					add(c17Scenario{Label: l2 + "/index-old", Op: "start", Local: c17NameNew, Hash: [][2]string{{c17IDB, c17NameOld}}, Entries: copyIn(db, old[best].Offset), Extra: lay.extra})
					add(c17Scenario{Label: l2 + "/index-both", Op: "start", Local: c17NameNew, Hash: both, Entries: copyIn(db, old[best].Offset), Extra: lay.extra})
				}
				// progress was made under the new id afterwards
				add(c17Scenario{Label: lab + "/both-ids(progressed)/index-both", Op: "start", Local: c17NameNew, Hash: both, Entries: copyIn(old[best].DB, old[best].Offset+100), Extra: lay.extra})
			}
			// TWO unrelated sources replicate into this target and share the checkpoint key (both index entries point to the
			// same name): whatever is done for the first one must leave the other one's position alone, and vice versa. The
			// other source's entry sits in the database of the first source's newest entry (same hash) or in another one.
			{
				xs := mk(c17NameOld, c17IDA)
				best := 0
				for i := range xs {
					if xs[i].Offset > xs[best].Offset || (xs[i].Offset == xs[best].Offset && xs[i].AgeNs < xs[best].AgeNs) {
						best = i
					}
				}
				elsewhere := 0
				if xs[best].DB == 0 {
					elsewhere = 1
					for _, db := range append(append([]int(nil), lay.dbs...), lay.extra...) {
						if db != 0 {
							elsewhere = db
							break
						}
					}
				}
				other := []string{c17IDP, c17IDQ}
				for pi, ydb := range []int{xs[best].DB, elsewhere} {
					y := c17Entry{DB: ydb, Name: c17NameOld, ID: c17IDP, Offset: 4242, AgeNs: int64(5 * time.Second)}
					l2 := fmt.Sprintf("%s/two-sources(other in db%d)", lab, ydb)
					add(c17Scenario{Label: l2, Op: "start", Local: c17NameNew, Hash: [][2]string{{c17IDA, c17NameOld}, {c17IDP, c17NameOld}}, Entries: append(mk(c17NameOld, c17IDA), y), Extra: lay.extra, Other: other})
					if pi == 1 && tier != "thorough" {
						continue // quick: re-id / SetRunId only with the other source's entry in the same hash
					}
					if len(lay.dbs)%2 == 0 || tier == "thorough" {
						add(c17Scenario{Label: l2, Op: "reid", Local: c17NameOld, Hash: [][2]string{{c17IDB, c17NameOld}, {c17IDP, c17NameOld}}, Entries: append(mk(c17NameOld, c17IDB), y), Extra: lay.extra, Other: other})
					} else {
						add(c17Scenario{Label: l2, Op: "setrunid", Local: c17NameOld, Hash: [][2]string{{c17IDB, c17NameOld}, {c17IDP, c17NameOld}}, Entries: append(mk(c17NameOld, c17IDB), y), Extra: lay.extra, Other: other})
					}
				}
			}
			// the index already points to the new name; a leftover copy under the old name
			left := mk(c17NameOld, c17IDA)
			for i := range left {
				left[i].Offset /= 2
				left[i].AgeNs += int64(time.Hour)
			}
			add(c17Scenario{Label: lab + "/index-new", Op: "noop", Local: c17NameNew, Hash: [][2]string{{c17IDA, c17NameNew}}, Entries: append(mk(c17NameNew, c17IDA), left...), Extra: lay.extra})
		}
	}
	// nothing stored yet
	add(c17Scenario{Label: "empty", Op: "start", Local: c17NameNew})
	add(c17Scenario{Label: "empty", Op: "setrunid", Local: c17NameOld})
	add(c17Scenario{Label: "empty+other1", Op: "start", Local: c17NameNew, Extra: []int{1}})

	// (c) garbage collection: every entry's mtime just before / at / just after the threshold
	S := int64(c17Stale)
	ages := []struct {
		n string
		v int64
	}{{"older-1ns", S + 1}, {"at", S}, {"younger-1ns", S - 1}}
	if tier == "thorough" {
		ages = append(ages, struct {
			n string
			v int64
		}{"old", S + int64(time.Hour)}, struct {
			n string
			v int64
		}{"fresh", int64(10 * time.Second)})
	}
	for _, lay := range c17Layouts(tier) {
		k := len(lay.dbs)
		for _, pat := range c17Patterns(k) {
			if k > 1 && strings.HasPrefix(pat.name, "equal-newest-last") {
				// ages are enumerated below, the pattern's ages are not used: one "equal" pattern suffices
				continue
			}
			combos := 1
			for i := 0; i < k; i++ {
				combos *= len(ages)
			}
			for c := 0; c < combos; c++ {
				var es []c17Entry
				var an []string
				x := c
				for i, db := range lay.dbs {
					a := ages[x%len(ages)]
					x /= len(ages)
					// distinct mtimes inside one class: shift by whole seconds away from the threshold only for old/fresh
					es = append(es, c17Entry{DB: db, Name: c17NameOld, ID: c17IDA, Offset: pat.offsets(i, k), AgeNs: a.v})
					an = append(an, a.n)
				}
				lab := fmt.Sprintf("%s/%s/mtime:%s", lay.name, strings.TrimSuffix(pat.name, "-newest-first"), strings.Join(an, ","))
				// quick tier: with three databases (3^3 mtime positions x ~275 executions each) every family takes
				// every third combination, shifted against each other; the thorough tier takes them all
				thin := func(shift int) bool { return tier != "thorough" && k >= 3 && (c+shift)%3 != 0 }
				if !thin(0) {
					add(c17Scenario{Label: lab, Op: "gc-cron", Local: c17NameOld, Hash: [][2]string{{c17IDA, c17NameOld}}, Entries: es, Extra: lay.extra})
				}
				if c%4 == 0 && !thin(0) {
					// an unreported id sharing the checkpoint key, all of it stale
					z := c17Entry{DB: lay.dbs[0], Name: c17NameOld, ID: c17IDZ, Offset: 7777, AgeNs: S + int64(time.Hour)}
					add(c17Scenario{Label: lab + "/stale-id", Op: "gc-cron", Local: c17NameOld, Hash: [][2]string{{c17IDA, c17NameOld}, {c17IDZ, c17NameOld}}, Entries: append(append([]c17Entry(nil), es...), z), Extra: lay.extra})
				}
				if c%5 == 0 && !thin(0) {
					add(c17Scenario{Label: lab, Op: "gc-del", Local: c17NameOld, Hash: [][2]string{{c17IDA, c17NameOld}}, Entries: es, Extra: lay.extra})
				}
				// the stored checkpoint's id is what the source reports as its SECOND id (master_replid2):
				// the window between a source fail-over and the first successful PSYNC + SetRunId
				withID := func(id string) []c17Entry {
					o := append([]c17Entry(nil), es...)
					for i := range o {
						o[i].ID = id
					}
					return o
				}
				if !thin(1) {
					add(c17Scenario{Label: lab + "/stored-under-second-id", Op: "gc-cron", Local: c17NameOld, Hash: [][2]string{{c17IDB, c17NameOld}}, Entries: withID(c17IDB), Extra: lay.extra})
				}
				if c%5 == 0 && !thin(1) {
					add(c17Scenario{Label: lab + "/stored-under-second-id", Op: "gc-del", Local: c17NameOld, Hash: [][2]string{{c17IDB, c17NameOld}}, Entries: withID(c17IDB), Extra: lay.extra})
				}
				if c%4 == 0 && !thin(2) {
					// both reported ids hold entries (an interrupted re-id): the second id's entries as enumerated,
					// a copy of its newest entry under the current id in the same database, written last (most recent mtime)
					old := withID(c17IDB)
					best := 0
					for i := range old {
						if old[i].Offset > old[best].Offset || (old[i].Offset == old[best].Offset && old[i].AgeNs < old[best].AgeNs) {
							best = i
						}
					}
					// the copy was written after every entry of the second id: its mtime is the most recent one
					young := old[0].AgeNs
					for _, e := range old {
						if e.AgeNs < young {
							young = e.AgeNs
						}
					}
					cp := c17Entry{DB: old[best].DB, Name: c17NameOld, ID: c17IDA, Offset: old[best].Offset, AgeNs: young - 1}
					add(c17Scenario{Label: lab + "/stored-under-both-ids", Op: "gc-cron", Local: c17NameOld, Hash: [][2]string{{c17IDB, c17NameOld}, {c17IDA, c17NameOld}}, Entries: append(old, cp), Extra: lay.extra})
				}
				if (c%9 == 0 || (tier == "thorough" && c%3 == 0)) && !thin(0) {
					// a second source shares the key; its source reports its ids as well. Its entry: stale, in the first entry's database
					// (same hash) when c is even, in another database otherwise
					ydb := lay.dbs[0]
					if c%2 == 1 {
						ydb = (lay.dbs[len(lay.dbs)-1] + 1) % 3
					}
					y := c17Entry{DB: ydb, Name: c17NameOld, ID: c17IDP, Offset: 4242, AgeNs: S + 1}
					add(c17Scenario{Label: lab + fmt.Sprintf("/two-sources(other in db%d)", ydb), Op: "gc-cron", Local: c17NameOld, Hash: [][2]string{{c17IDA, c17NameOld}, {c17IDP, c17NameOld}},
						Entries: append(append([]c17Entry(nil), es...), y), Extra: lay.extra, Other: []string{c17IDP, c17IDQ}})
				}
				if c%6 == 0 && !thin(0) {
					// the stored id is neither of the reported ones: everything stale may go, nothing else may break
					add(c17Scenario{Label: lab + "/stored-under-unreported-id", Op: "gc-cron", Local: c17NameOld, Hash: [][2]string{{c17IDZ, c17NameOld}}, Entries: withID(c17IDZ), Extra: lay.extra})
				}
			}
		}
	}
	return out
}

// ---------------------------------------------------------------------------
// enumeration: visiting orders by rejection x every crash prefix

func c17Fact(n int) int {
	f := 1
	for i := 2; i <= n; i++ {
		f *= i
	}
	return f
}

func runC17(t *testing.T, rep *mc.Reporter) {
	// every execution allocates a few MB of connection buffers while the live heap is a
	// few MB of static tables: with the default GOGC the collector runs once per execution
	gcp := 400
	if v, err := strconv.Atoi(os.Getenv("VERIF_GOGC")); err == nil && v > 0 {
		gcp = v
	}
	debug.SetGCPercent(gcp)
	shard, nshards := mc.ShardOf()
	tier := mc.Tier()
	budget := &mc.Budget{Deadline: mc.DeadlineFromEnv()}
	if rp, err := mc.LoadReplay(); err != nil {
		rep.Machinery("cannot load replay: "+err.Error(), nil)
		return
	} else if rp != nil {
		var scn c17Scenario
		if err := json.Unmarshal(rp.Scenario, &scn); err != nil {
			rep.Machinery("bad replay scenario: "+err.Error(), nil)
			return
		}
		if scn.Op == "mode-switch" {
			var b c17bScenario
			if err := json.Unmarshal(rp.Scenario, &b); err != nil {
				rep.Machinery("bad replay scenario: "+err.Error(), nil)
				return
			}
			rep.Exec(b, nil, c17bJudge(b, c17bExec(t, b)))
			return
		}
		// repeat until the recorded visiting orders come up again
		for try := 0; try < 20000; try++ {
			o := c17Exec(t, scn)
			if o.machinery != "" || (o.order == scn.Order && (scn.ROrder == "" || o.rorder == scn.ROrder)) || (scn.Src != nil && o.R == 0) { // the last: the pass gave up before its first target request, no visiting order exists
				rep.Exec(scn, nil, c17Judge(scn, o))
				return
			}
		}
		rep.Machinery("replay: the recorded database visiting order did not come up again in 20000 executions", nil)
		return
	}
	fullTries, crashTries := 48, 96
	if tier == "thorough" {
		fullTries, crashTries = 96, 192
	}
	sigSeen := map[string]int{}
	report := func(scn c17Scenario, o c17Obs) {
		scn.Order, scn.ROrder = o.order, o.rorder
		res := c17Judge(scn, o)
		rep.Count(fmt.Sprintf("execs_%s_%ddb", scn.Op, o.nDB), 1)
		if res.Verdict == "violation" {
			sigSeen[res.Sig]++
			if sigSeen[res.Sig] <= 2 {
				// reproduce twice: under exactly the same visiting orders (operation and every later start) if they come up
				// again within the budget; the later starts' orders multiply (up to six loops with rare rotations), so as a
				// fall-back a re-run with the same order of the OPERATION that breaks the same clause confirms it as well
				for k := 0; k < 2 && res.Verdict == "violation"; k++ {
					found, sameSig := false, false
					for try := 0; try < 4000; try++ {
						o2 := c17Exec(t, scn)
						if o2.machinery != "" {
							res = mc.Result{Verdict: "machinery", Clause: o2.machinery}
							found = true
							break
						}
						if o2.order != o.order {
							continue
						}
						r2 := c17Judge(scn, o2)
						if r2.Verdict == res.Verdict && r2.Sig == res.Sig {
							sameSig = true
						}
						if o2.rorder != o.rorder {
							continue
						}
						found = true
						if r2.Verdict != res.Verdict || r2.Sig != res.Sig {
							res = mc.Result{Verdict: "machinery", Clause: fmt.Sprintf("violation not reproducible under the same visiting order: first=%s now=%s/%s", res.Sig, r2.Verdict, r2.Sig), Detail: res.Detail}
						}
						break
					}
					if !found && !sameSig {
						res = mc.Result{Verdict: "machinery", Clause: "could not reproduce a violation (neither its visiting orders nor its clause came up again in 4000 executions)", Detail: res.Detail}
					}
				}
			}
		}
		rep.Exec(scn, nil, res)
	}
	idx := 0
	if os.Getenv("VERIF_ALLVIOL") != "" { // debugging aid: keep every violation record
		rep.MaxPerSig = 1 << 30
	}
	if os.Getenv("VERIF_ONLY") == "count" { // debugging aid: sizes of the scenario lists
		src, states, allOK := c17SrcScenarios(tier), map[string]bool{}, 0
		for _, s := range src {
			states[s.Label[:strings.Index(s.Label, "/source:")]] = true
			if !strings.Contains(strings.Join(s.Src.Answers, ","), "-") && !strings.Contains(strings.Join(s.Src.Answers, ","), "refused") {
				allOK++
			}
		}
		fmt.Fprintf(os.Stderr, "C17 %s: %d scenarios + %d of the family gc-source-answers (%d states of the first shard, %d passes in which every node answers)\n", tier, len(c17Scenarios(tier)), len(src), len(states), allOK)
		return
	}
	runC17Bisync(t, rep, budget, &idx)
	if os.Getenv("VERIF_ONLY") == "mode-switch" { // debugging aid
		return
	}
	for _, base := range append(c17Scenarios(tier), c17SrcScenarios(tier)...) {
		idx++
		if idx%nshards != shard || (os.Getenv("VERIF_ONLY") == "gc-source-answers" && base.Src == nil) { // the latter: debugging aid
			continue
		}
		if budget.Expired() {
			rep.Capped("deadline reached before all scenarios were explored")
			break
		}
		rep.Scenario()
		// ---- phase 1: uncrashed runs, learn R and the visiting orders that occur
		perms := map[string]bool{} // first-loop visiting orders seen in complete runs
		R, nDB := 0, 0
		for try := 0; try < fullTries; try++ {
			o := c17Exec(t, base)
			report(base, o)
			if o.machinery != "" {
				return
			}
			nDB = o.nDB
			if o.R > R {
				R = o.R
			}
			perms[c17FirstLoop(o.order, nDB)] = true
			if len(perms) >= c17Fact(nDB) {
				break
			}
			if o.R == 0 && base.Src != nil {
				// the pass gave up before its first target request (the consultations are made in slice order, no
				// iteration order is involved): there is no visiting order to enumerate and no prefix to stop at
				nDB = 1
				break
			}
		}
		if base.Src != nil {
			rep.Count("execs_gc_source_answers", 1)
		}
		rep.Count("order_slots", int64(c17Fact(nDB)))
		rep.Count("orders_seen", int64(len(perms)))
		var plist []string
		for p := range perms {
			plist = append(plist, p)
		}
		sort.Strings(plist)
		// ---- phase 2: every crash prefix, under every visiting order seen above
		faults := []string{""}
		if base.Op == "setrunid" {
			// the tool survives the fault and SetRunId's own retry meets a live target
			faults = append(faults, "error-reply", "crash-revive")
		}
		for kf := 0; kf < R*len(faults); kf++ {
			k := kf % R
			scn := base
			scn.CrashAt = k
			scn.Fault = faults[kf/R]
			need := map[string]bool{}
			for _, p := range plist {
				need[p] = true
			}
			for try := 0; try < crashTries && len(need) > 0; try++ {
				o := c17Exec(t, scn)
				report(scn, o)
				if o.machinery != "" {
					return
				}
				got := c17FirstLoop(o.firstTry, nDB)
				for p := range need {
					if strings.HasPrefix(p, got) {
						delete(need, p)
					}
				}
			}
			rep.Count("crash_order_slots", int64(len(plist)))
			rep.Count("crash_orders_covered", int64(len(plist)-len(need)))
			if budget.Expired() {
				break
			}
		}
	}
}
